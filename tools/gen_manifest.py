#!/venv/bin/python
"""Regenerates /verif/MANIFEST.json from the table below (kept in one place so it stays consistent)."""

import json
import os
import subprocess

VERIF = os.path.dirname(os.path.dirname(os.path.abspath(__file__)))

CLAIMS = {
    "C01": dict(
        ref="5.1",
        text="Seeded search over CDCL schedules (decision variable/phase overrides through guarded hooks, Luby factor, restart and conflict "
             "budgets, learned-clause GC threshold and VSIDS decay rebuilt as simulator knobs) and formulas; every returned assignment is checked against every clause and assumption "
             "and for pairwise distinctness. Self-certifying oracle; sampling, not proof.",
        note="Trusts the clause evaluator in sim/oracles/satref.py. Perturbed decision schedules are legal CDCL executions of the same code "
             "but not the shipped heuristic; each replay says whether it needs the hook (shipped_path).",
        tech="deterministic simulation: seeded CDCL schedule/restart/GC-knob/budget perturbation with model-checking oracle"),
    "C02": dict(
        ref="5.1",
        text="Same simulated executions as C01 judged for verdict correctness against an independent truth-table model counter (n<=16) or "
             "z3 (larger), plus bounded liveness by a deterministic step budget (sys.monitoring event counter) instead of wall clock.",
        note="Trusts the bit-parallel truth-table oracle and /usr/bin/z3; the step budget is a generous function of the declared budgets.",
        tech="deterministic simulation: schedule/budget fault injection, reference-model verdict oracle, step-budget liveness"),
    "C04": dict(
        ref="5.2",
        text="Seeded search over the RNG decision sequence of the LNS pass (faithful, unseeded with simulated entropy, scripted boundary "
             "draws) and over option configurations, against an exact integer-box enumeration + Fraction LP oracle; cross-configuration "
             "verdict invariance. Thin seam: most of the statement is decided by the reference model on the same runs.",
        note="Trusts the Fraction simplex / box enumeration reference; instances are small and explicitly boxed. One open known finding (C04-unscaled-tableau-tolerance: integer data in the hundreds/thousands, family key data=hundreds+) is printed as KNOWN-FINDING and folded; everything outside that family is still reported.",
        tech="deterministic simulation (RNG seam of the LNS pass, configuration swarm) + exact reference model"),
    "C09": dict(
        ref="5.3",
        text="Seeded search over per-process hash order (PYTHONHASHSEED fixed per worker block, random string labels) which drives "
             "min_cost_flow's Bellman-Ford relaxation and augmentation order, with deterministic step budgets for termination, against a "
             "reference successive-shortest-path optimum on the explicit residual multigraph; network_simplex and solve_assignment on the "
             "same instances.",
        note="Trusts the reference min-cost-flow (cross-checked by brute force on tiny instances at start-up).",
        tech="deterministic simulation: hash-order schedule sweep + step-budget liveness + reference model"),
    "C12": dict(
        ref="5.4",
        text="Two replicas (Rust extension built by the check from /repo/rust, Python bodies) behind the real router; one seeded request "
             "stream is issued under backend=rust/python/default on one shared input list (edited in place between two rounds), plus the injected fault 'extension unavailable'; answers compared per "
             "the statement and paths/orders validated against the problem.",
        note="Trusts cargo's offline build of the working tree and the validators in sim/props/backends.py.",
        tech="deterministic simulation: replica equivalence under back-end selection and extension-unavailable fault"),
    "C15": dict(
        ref="5.5",
        text="Seeded search over per-process hash order (drives kcore_decomposition's bucket pops and neighbour demotion), neighbour "
             "iteration order and labels; oracles by definition (removal + component count, naive peeling, Fraction PageRank solve, "
             "modularity formula); Louvain termination by step budget. Thin seam: most of the statement is decided by the reference model.",
        note="Trusts the definitional oracles in sim/oracles/graphref.py.",
        tech="deterministic simulation: hash-order schedule sweep + step-budget liveness + definitional reference models"),
    "C17": dict(
        ref="5.6",
        text="Seeded search over cancellation ticks (every on_progress tick of the uncancelled run), simulated time limits through the "
             "shipped default_progress, iteration/node budget cuts and unusual pricing peers, against a demand-lattice DP optimum.",
        note="Trusts the DP reference (cross-checked by exhaustive pattern enumeration on tiny instances).",
        tech="deterministic simulation: cancellation/time-limit/budget fault injection at every tick, DP reference oracle"),
    "C18": dict(
        ref="5.7",
        text="Seeded destroy/repair operator histories on VRPState with the four bookkeeping invariants evaluated by an independent "
             "evaluator after every operator; solve_vrptw end-to-end with every candidate state ALNS evaluates checked, under seeds, "
             "unseeded runs, cancellation; job-shop schedules validated under seeds, rules, budgets, cancellation.",
        note="Trusts the from-scratch route/arrival-time evaluator and schedule validator in sim/props/schedroute.py.",
        tech="deterministic simulation: seeded operator histories + RNG/cancel fault injection, invariant checking after every step"),
    "C19": dict(
        ref="5.8",
        text="Seeded search over RNG decision sequences (faithful, unseeded with simulated entropy, scripted boundary draws), simulated "
             "clock, cancellation placed inside the uncancelled run, and table-driven call-back peers; the recorded objective-call history "
             "is judged for faithfulness, best-of-history, evaluation count, mirror symmetry, bounds and reproducibility.",
        note="Trusts the recorded-history oracle; landscapes are deterministic and finite-valued.",
        tech="deterministic simulation: RNG/clock/cancel fault injection with history oracle"),
    "C20": dict(
        ref="5.9",
        text="Seeded search over operation histories (union/find/connected/queries, update/prefix/range_sum) with refinement against a "
             "label-array / plain-list reference model after every operation and a full audit of a deep copy; sampling, not proof.",
        note="Trusts the reference models (label array, plain list) and exact dyadic arithmetic; indices in range only.",
        tech="deterministic simulation: seeded operation histories vs executable reference model (no fault kinds apply)"),
}

NA = {
    "C03": "solve_lp/solve_lp_interior are closed numeric computations on their arguments: no RNG, clock, call-out, surviving state or hash-ordered labels, so there is no schedule or fault for a simulator to decide (DESIGN.md section 6).",
    "C05": "Model.solve is a pure function of the constraint program; neither the DFS propagator nor the encoder consults anything but the model (DESIGN.md section 6).",
    "C06": "A statement about a deterministic, interaction-free translator over all source programs: translation validation, not simulation (DESIGN.md section 6).",
    "C07": "Pure recursive search on a structure built fresh per call; no history, schedule, clock or fault (DESIGN.md section 6).",
    "C08": "max_flow iterates only insertion-ordered dicts built from its argument; no set of labels, RNG or call-out (DESIGN.md section 6).",
    "C10": "solve_hungarian is a closed numeric computation on the matrix (DESIGN.md section 6).",
    "C11": "Neighbour/heuristic call-backs are pure adjacency oracles, sets are membership-only, budgets are plain parameters; neighbour order is the caller's input (DESIGN.md section 6).",
    "C13": "kruskal sorts an edge list, prim uses sets for membership only; the UnionFind underneath is C20 (DESIGN.md section 6).",
    "C14": "Recursion over caller-ordered lists, membership-only sets, condensed edges are sets of ints; order sensitivity is to the caller's input (DESIGN.md section 6).",
    "C16": "Closed DP / greedy computations on the item lists (DESIGN.md section 6).",
}

NOT_YET = "Planned as a claim (DESIGN.md section 5) but its check is not built yet in this commit; listed here so that every property is accounted for."


def main():
    import sys
    sys.path.insert(0, os.path.join(VERIF, "sim"))
    built = [p for p in CLAIMS if os.path.exists(os.path.join(VERIF, "sim", "props", _registry()[p] + ".py"))]
    hook_commits = []
    hc = os.path.join(VERIF, "hook_commits.txt")
    if os.path.exists(hc):
        hook_commits = [l.split()[0] for l in open(hc) if l.strip() and not l.startswith("#")]
    import glob
    n_own = len(glob.glob(os.path.join(VERIF, "selftest", "mutants", "*.diff")))
    metas = [json.load(open(f)) for f in glob.glob(os.path.join(VERIF, "seeded", "*", "meta.json"))]
    n_seeded = sum(1 for m in metas if m.get("confirmed"))
    n_blind = sum(1 for m in metas if m.get("known_blind_spot"))
    NOTES_PLACEHOLDER = ""
    man = {
        "version": 1,
        "setup_cmd": "./simcheck setup",
        "hooks": {
            "guard": "SOLVOR_VERIF",
            "enable": "environment variable SOLVOR_VERIF=1, set by the simcheck workers (pure Python: nothing to rebuild; the C12 check builds the Rust extension from /repo/rust itself)",
            "baseline_off_cmd": "cd /repo && env -u SOLVOR_VERIF /venv/bin/python -m pytest -ra -q -p no:cacheprovider --timeout=900",
            "source_commits": hook_commits,
            "add_only": True,
        },
        "engines": [{
            "name": "simcheck", "path": "sim/", "serves_properties": built,
            "kind_free_text": "hand-written deterministic simulator: one VERIF_SEED decides workload, schedule and fault plan; simulator-owned RNG / clock / cancellation / hash-order / back-end / CDCL-schedule seams; reference-model oracles; delta-debugging shrinker; replay files re-run in fresh interpreters",
        }],
        "checks": [],
        "not_applicable": [],
        "notes": NOTES_PLACEHOLDER + "All claimed checks are level 'exploration' (seeded sampling of schedules and fault sequences; one VERIF_SEED decides workload, schedule and fault plan; violations come with a minimised replay file re-run twice in fresh interpreters, or with a block-prefix replay when the defect depends on state left by earlier calls). 46 'fix:' commits repaired genuine defects in /repo (45 for claimed properties; the last 24 after three rounds of independent sub-agents hunting for defects widened the input domains); they are listed in known_findings.json as 'fixed:' entries whose reproducers run first in every check. One defect is recorded, not repaired: open entry C04-unscaled-tableau-tolerance (the C04 check prints its KNOWN-FINDING line and exits 0). Self-tests: ./simcheck selftest determinism | sensitivity ({n_own} own mutants + {n_seeded} independent seeded changes under seeded/, {n_blind} of them a documented blind spot) | findings. DESIGN.md section 10 records what was built, the defects, the seeded changes and the mutation sweeps.",
    }
    for k, v in (("{n_own}", n_own), ("{n_seeded}", n_seeded), ("{n_blind}", n_blind)):
        man["notes"] = man["notes"].replace(k, str(v))
    for p in sorted(CLAIMS):
        c = CLAIMS[p]
        if p in built:
            man["checks"].append({
                "property_id": p,
                "quick_cmd": f"./simcheck {p} --tier quick",
                "thorough_cmd": f"./simcheck {p} --tier thorough",
                "evidence_file": f"evidence/{p}.json",
                "replay_cmd_template": "./simcheck --replay {path}",
                "engine": "simcheck",
                "level_claimed": {"category": "exploration", "text": c["text"], "design_ref": c["ref"]},
                "level_note": c["note"],
                "technique": c["tech"],
            })
        else:
            man["not_applicable"].append({"property_id": p, "reason": NOT_YET})
    for p in sorted(NA):
        man["not_applicable"].append({"property_id": p, "reason": NA[p]})
    with open(os.path.join(VERIF, "MANIFEST.json"), "w") as fh:
        json.dump(man, fh, indent=1)
    r = subprocess.run(["python3-vt", "-c", "import json,jsonschema;jsonschema.validate(json.load(open('%s/MANIFEST.json')),json.load(open('/root/.vp/MANIFEST.schema.json')));print('manifest valid')" % VERIF])
    print("claimed:", built)
    return r.returncode


def _registry():
    import core
    return core.REGISTRY


if __name__ == "__main__":
    raise SystemExit(main())
