#!/venv/bin/python
"""Regenerates the generated blocks of DESIGN.md (seeded-change table) from /verif/seeded/*/meta.json."""

import glob
import json
import os
import re

VERIF = os.path.dirname(os.path.dirname(os.path.abspath(__file__)))

# what was needed before the check caught the change (empty = caught by the check as it stood when the change arrived)
STRENGTHENED = {
    "C12-agent-1": "MISSED at first (status rule too loose); caught after the PageRank status rule of 5.4 was implemented exactly",
    "C12-agent-2": "MISSED at first (each route got a fresh edge list); caught after the three routes share one input list and the Python route is re-asked afterwards (`history_dependent`)",
    "C12-agent-3": "MISSED at first (self loops were filtered out of the acyclic slice); caught after DAGs whose only cycle is a self loop were generated",
    "C20-agent-1": "caught by the tournament histories (added earlier, after an own rank-3 mutant was missed)",
    "C20-agent-3": "MISSED at first (constructor always got a fresh list); caught after the `second_tree` operation and the caller-list check were added",
    "C02-agent-1": "MISSED at first by the quick tier (thorough caught it once in 532 k runs, on a medium z3-judged formula with GC threshold 16); caught by quick after a 15 % slice of medium near-threshold 3-SAT with GC threshold 2-16 was added",
    "C02-agent-3": "MISSED at first (verdicts stay right); caught after the budget rule was added: more than max_conflicts + n_vars + 1 analysed conflicts, or more than max_restarts restarts, is `budget_ignored`",
    "C04-agent-1": "MISSED at first (no duplicated rows, no mixed binary/general-integer slice); caught after redundant rows and the nearly-binary family were added (2 hits in 16 k quick runs at first; 12-50 hits per quick run at seeds 0-2 with the final generator)",
    "C04-agent-3": "MISSED at first (no warm start violated only x >= 0); caught after the `negative_entry` warm-start kind was added",
    "C15-agent2-2": "MISSED at first (the neighbour table handed out the very label objects of the node list); caught after `fresh` labels (equal, not identical; also tuple and large-int labels) were added",
    "C01-agent-2": "would have been MISSED (no clause repeated a literal; the author's own 150 k random enumerations without repeats saw nothing); caught after the duplicate-literal / tautology clause shapes were added",
    "C02-agent2-1": "MISSED at first by the C02 check (the C01 check reported it as bad_model); C02 now also reports a returned non-model (`answer_is_not_a_model`): what came back is not 'a model'",
    "C02-agent2-3": "would have been MISSED (every clause was passed as its own fresh list); caught after equal clauses are passed as one shared list object / as tuples and repeated clauses were generated",
    "C17-agent2-3": "would have been MISSED (every custom universe contained the unit columns); caught after the slice of column pools that cannot produce a demanded item was added (on the clean tree solve_cg raises OverflowError there, which presents no plan and is counted as a probe)",
    "C04-agent2-3": "caught as the check stood, because a worker interpreter executes hundreds of cases and the stale memo of one case leaked into a later one; the single-case replay could not reproduce it, which led to the block-prefix replay mode (the replay re-executes the preceding runs of the block)",
    "C09-agent2-2": "caught, but the first evaluation ran for many minutes because every hit burns a 1.5 M event step budget; workers now stop a block after 12 violating runs and the master stops dispatching after 60",
    "C15-agent3-1": "would have been MISSED (the sound error bound n*tol*d/(1-d) is far too loose); caught after the residual rule (OPTIMAL => residual of one sweep <= 10 tol; the shipped rule stays below 2.5 tol on 40 000 random graphs) and hub-and-spoke graphs up to 70 nodes were added",
    "C15-agent3-2": "MISSED at first (nodes were always a list); caught after nodes / neighbours are also passed as tuples, iterators and generators",
    "C19-agent3-2": "would have been MISSED (exponential cooling was always given as a float); caught after schedule objects (incl. exponential_cooling) are built once per case and shared by its runs",
    "C17-agent3-1": "MISSED at first; after duplicated columns and pools without unit columns were generated it was caught by a single run out of 12 k, and a later change of the generator lost it again (found by the sensitivity self-test); now custom branch-and-price cases are 5 k of the 16 k quick runs and repeated columns get a demand that is not a multiple of their yield: 4-9 hits per quick run at seeds 0-2",
    "C17-agent3-2": "would have been MISSED (gap_tol was never passed); caught after solve_bp also runs with gap_tol 0.01 / 0.04, values that cannot legitimise a non-minimal plan of <= 20 rolls",
    "C15-agent4-3": "would have been MISSED (every case built a fresh lambda); caught after 20 % of the cases use ONE module-level call-back object and the node sequence 0..n-1, as earlier cases of the same worker did",
    "C19-agent4-3": "would have been MISSED (alns weights were never passed); caught after caller-supplied weight lists, shared by the runs of a case, were added",
    "C12-agent4-2": "would have been MISSED (weights were multiples of 1/4); caught after the tiny dyadic weight mode (multiples of 2^-40) was added",
    "C09-agent4-1": "MISSED at first, and still missed after a first attempt (a 1e9 arc next to costs -3..6 rarely matters); caught after penalty instances draw their other costs from -10..20",
    "C02-agent4-2": "would have been MISSED (clauses were lists or tuples); caught after clause rows / the whole formula are also passed as one-shot iterators",
    "C02-agent4-3": "would have been MISSED; caught after assumptions are also passed as a generator",
    "C17-agent4-1": "would have been MISSED (lists were shared between the variants of a case but never edited); caught after a second instance is solved through the same list objects edited in place",
    "C02-agent5-2": "MISSED at first (needs ~4500 conflicts); caught after the VSIDS decay literal became a simulator knob (0.5 ... 1e-25: rescaling code and infinite activities are reached within a few conflicts) and auxiliary-variable gadgets were added to small and medium formulas",
    "C02-agent5-3": "MISSED at first (at most a few hundred variables); caught after formulas with a propagation chain of 1200-3000 literals below a two-level conflict were added",
    "C04-agent5-1": "MISSED at first (all values were below 4); caught after 8 % of the boxed programs are shifted by 1e5-1e6 per integer variable (same fractional parts, exact oracle enumerates the shifted box)",
    "C04-agent5-2": "MISSED at first (no solve needed 10 000 pivots); caught after a few subset-sum knapsacks with 12-18 items per quick run (thousands of nodes, bitset DP oracle) were added",
    "C04-agent5-3": "MISSED at first, and for a long time (a slice of degenerate cones was added, but a cycling instance is a 1-in-35 000 event even among those; 212 000 thorough runs did not hit one); caught since the greybox-guided generator: of 600 candidate cones whose origin is not optimal the one whose root LP needs the most pivots under the code being checked becomes the case - 2 violating instances per quick run at seeds 0-2.  VOID since the repair c390631: a cycling root LP now yields MAX_ITER instead of a wrong OPTIMAL, so the change no longer breaks the statement (the guided family stays: it is the only part of the check that reaches stalling / cycling simplex runs)",
    "C09-agent5-1": "MISSED at first (2 of 20 000 random instances); caught after layered unit-capacity networks with crossing lanes and demand 2-4 were added (5 % of the runs).  VOID since /repo 815dc43: the change only misbehaved through `max_flow`'s own defect (no residual arc without an anti-parallel partner), which was repaired later; with a correct `max_flow` the added pre-check is sound, so it is no longer re-run",
    "C09-agent5-2": "MISSED at first (networks had at most 40 arcs); caught after transshipment networks with 55-130 lanes, several plants/customers, potentials-based negative costs and meaningful arc orders were added (0.6 % of the runs, 9-23 hits per quick run)",
    "C09-agent5-3": "MISSED at first; caught after pipeline DAGs with rebates (optional stages, hub, warehouse fan-out) were added: labels that improve again and again within one shortest-path computation",
    "C12-agent5-1": "would have been MISSED (at most 3n+1 edges); caught after a slice of dense edge lists (256-650 edges, 8-70 nodes) was added",
    "C12-agent5-2": "would have been MISSED (the shared list was never edited); caught after the caller replaces one entry of the shared list in place and every route is asked again (`stale_after_edit`)",
    "C12-agent5-3": "would have been MISSED (tol=0 was not generated and the knife-edge excuse covered max_diff == tol == 0); caught after tol=0.0 was added and the excuse was limited to tol > 0",
    "C15-agent5-1": "would have been MISSED (at most a few dozen nodes); caught after graphs of 520-1100 nodes made of many small components were added (the definitional oracle works per component)",
    "C15-agent5-2": "would have been MISSED (tol=0.0 was not generated); caught after it was, with the rule that OPTIMAL at tol=0 claims an exact fixed point",
    "C15-agent5-3": "would have been MISSED (the mismatch is below 1e-7 and needs thousands of edges); caught after louvain runs on 800/2000-node graphs with ~3n edges were added (step budget now scales with size)",
    "C19-agent5-1": "MISSED at first (table values were small ints / dyadics); caught after table landscapes with exact integers around 2**60 were added",
    "C19-agent5-2": "MISSED at first; caught after landscapes whose whole range is ~1e-17 (multiples of 2^-60), large offsets with 1/1024 differences, and power-of-two rescaled functions were added",
    "C19-agent5-3": "MISSED at first (move labels were always (from, to) pairs); caught after arbitrary hashable move labels (None, bare targets, mixed) were generated",
    "C20-agent5-1": "would have been MISSED (at most 1000 elements, random unions); caught after union chains of 1200-4000 elements were added",
    "C20-agent5-2": "would have been MISSED (results were only read); caught after the `consume_components` operation (the caller empties what get_components / component_sizes returned) was added",
    "C18-agent5-1": "MISSED at first (lattice and dyadic coordinates give spreads of exactly 0 or far above 1e-6); caught after nearly coincident geometry was added (lattice points moved by 2^-10..2^-24; customers strung along a ray with hair-width offsets and a multi-vehicle customer at the far end)",
    "C17-agent5-1": "MISSED at first, and marginal now: needs the fixed-pool proof path (pricing that offers nothing more), added in this round; 0-1 hits per quick run (caught at seeds 0 and 1, not at 2), 2 hits in a 200 s thorough run - counted as a blind spot of the *quick* tier",
    "C17-agent5-2": "MISSED at first at seed 0 (caught at seeds 1-3 with 2-9 hits); robust (3-11 hits at seeds 0-3) after non-best pricing peers got more weight and jumbo columns covering all/half of the demand were added",
    "C17-agent5-3": "would have been MISSED (my pricing peers re-offer pooled columns inside branched nodes, which makes those nodes inexact and the status FEASIBLE); caught after the `fixed_pool` peer and the rich fixed-pool slices were added.  The first evaluation of this round's C17 changes was void: it reported the two genuine defects of 10.3 (b5a00a1, a9b5bec) on the unchanged tree instead; they were repaired first and the changes re-evaluated",
    "C17-agent-3": "MISSED at first (only integer roll widths were generated); caught after fractional roll widths were added",
}
WHAT = {}


def first_line(path):
    try:
        txt = open(path).read()
    except OSError:
        return ""
    for line in txt.splitlines():
        line = line.strip("# ").strip()
        if len(line) > 20:
            return line[:140]
    return ""


def main():
    for d in sorted(glob.glob(os.path.join(VERIF, "seeded", "*", "meta.json"))):  # later rounds keep their note in meta.json
        m = json.load(open(d))
        if m.get("note"):
            STRENGTHENED.setdefault(os.path.basename(os.path.dirname(d)), m["note"])
    rows = ["| change | property | what it breaks / needs | confirmed (demo 0/1, suite) | quick check | class reported | note |", "|---|---|---|---|---|---|---|"]
    for d in sorted(glob.glob(os.path.join(VERIF, "seeded", "*"))):
        mp = os.path.join(d, "meta.json")
        if not os.path.exists(mp):
            continue
        m = json.load(open(mp))
        name = os.path.basename(d)
        cls = ""
        for l in m.get("check_lines", []):
            mm = re.search(r"class=(\S+)", l) or re.search(r"regression of fixed finding (\S+)", l)
            if mm:
                cls = mm.group(1)
                break
        desc = m.get("summary") or first_line(os.path.join(d, "notes.md"))
        conf = f"{m.get('demo_clean_rc')}/{m.get('demo_mutant_rc')}, {'pass' if m.get('suite_pass') else 'FAIL'}"
        rows.append(f"| {name} | {m['property']} | {desc} | {conf} | {m.get('verdict')} ({m.get('check_wall_s')} s) | {cls} | {STRENGTHENED.get(name, '')} |")
    n_all = len(rows) - 2
    n_missed = sum(1 for k, v in STRENGTHENED.items() if "MISSED" in v and os.path.exists(os.path.join(VERIF, "seeded", k)))
    n_still = sum(1 for k, v in STRENGTHENED.items() if (v.startswith("MISSED, and still missed:") or v.startswith("MISSED, and not pursued:") or v.startswith("MISSED at first, and marginal now:")) and os.path.exists(os.path.join(VERIF, "seeded", k)))
    rows.append("")
    rows.append(f"Totals: {n_all} confirmed seeded changes; {n_all - n_missed} were caught by the quick check as it stood when the change "
                f"arrived, {n_missed} were missed (or would have been) and led to the strengthening described in the last column; "
                f"{n_all - n_still} are caught now and are re-run by `./simcheck selftest sensitivity`"
                f"{'' if not n_still else f'; {n_still} are still missed or marginal at the quick tier (see their notes)'}.")
    table = "\n".join(rows)
    p = os.path.join(VERIF, "DESIGN.md")
    s = open(p).read()
    begin, end = "<!-- SEEDED-TABLE-BEGIN -->", "<!-- SEEDED-TABLE-END -->"
    if "SEEDED-TABLE-PLACEHOLDER" in s:
        s = s.replace("SEEDED-TABLE-PLACEHOLDER", f"{begin}\n{end}")
    i, j = s.index(begin), s.index(end)
    s = s[: i + len(begin)] + "\n" + table + "\n" + s[j:]
    # evidence table
    rows = ["| check | tier | runs | distinct non-trivial | runs/hour (this box, 16 workers) | faults fired | probes |", "|---|---|---|---|---|---|---|"]
    for f in sorted(glob.glob(os.path.join(VERIF, "evidence", "*.json"))):
        e = json.load(open(f))
        c = e["coverage"]
        fc = ", ".join(f"{k} {v}" for k, v in sorted(c.get("fault_counts", {}).items(), key=lambda kv: -kv[1]))
        if len(c.get("python_hash_seeds", [])) > 1:
            fc = (fc + "; " if fc else "") + f"hash-order schedules: {len(c['python_hash_seeds'])} PYTHONHASHSEEDs"
        fc = fc or "none apply (histories only)"
        pc = ", ".join(f"{k} {v}" for k, v in sorted(c.get("probe_counts", {}).items(), key=lambda kv: -kv[1])) or "-"
        rows.append(f"| {e['property_id']} | {e['tier']} | {c['evaluations']} | {c['distinct_nontrivial']} | {c.get('runs_per_hour')} | {fc} | {pc} |")
    etable = "\n".join(rows)
    b2, e2 = "<!-- EVIDENCE-TABLE-BEGIN -->", "<!-- EVIDENCE-TABLE-END -->"
    if b2 in s:
        i, j = s.index(b2), s.index(e2)
        s = s[: i + len(b2)] + "\n" + etable + "\n" + s[j:]
    open(p, "w").write(s)
    print(table)


if __name__ == "__main__":
    main()
