#!/venv/bin/python
"""Token-level mutation sweep used to look for blind spots of a check (a development tool, not part of any registered check).

usage: mutsweep.py <PROP> <tests glob/dir under tests/> <N mutants> <seed> <file> [<file> ...]   (files relative to the repo root)
For each sampled single-token mutant of the given files: apply it in a scratch worktree under /tmp, run the repo's own tests
for that module (mutants the unit tests already kill are uninteresting), then run the quick check of PROP against the mutated
tree.  Prints one line per mutant and a list of survivors (not killed by the tests, not detected by the check) for manual triage:
a survivor is either an equivalent mutant / outside the property, or a blind spot."""

import concurrent.futures as cf
import io
import json
import os
import random
import shutil
import subprocess
import sys
import tokenize

VERIF = os.path.dirname(os.path.dirname(os.path.abspath(__file__)))
PY = "/venv/bin/python"

SWAP_OP = {"<": ["<="], "<=": ["<"], ">": [">="], ">=": [">"], "==": ["!="], "!=": ["=="], "+": ["-"], "-": ["+"], "+=": ["-="], "-=": ["+="],
           "*": ["+"], "//": ["/"]}
SWAP_NAME = {"and": ["or"], "or": ["and"], "min": ["max"], "max": ["min"], "True": ["False"], "False": ["True"], "break": ["continue"],
             "not": [""], "is": ["=="]}


def mutants_of(path, text):
    toks = list(tokenize.generate_tokens(io.StringIO(text).readline))
    lines = text.splitlines(keepends=True)
    out = []
    depth_doc = False
    for i, t in enumerate(toks):
        rep = None
        if t.type == tokenize.OP and t.string in SWAP_OP:
            rep = SWAP_OP[t.string]
        elif t.type == tokenize.NAME and t.string in SWAP_NAME:
            rep = SWAP_NAME[t.string]
        elif t.type == tokenize.NUMBER and t.string in ("0", "1", "2"):
            rep = {"0": ["1"], "1": ["0", "2"], "2": ["1"]}[t.string]
        if not rep:
            continue
        (r, c0), (r2, c1) = t.start, t.end
        if r != r2:
            continue
        line = lines[r - 1]
        if line.lstrip().startswith(("#", '"""', "'''", "import ", "from ")) or "__all__" in line:
            continue
        for new in rep:
            nl = line[:c0] + new + line[c1:]
            out.append((r, t.string, new, "".join(lines[: r - 1]) + nl + "".join(lines[r:])))
    return out


def sh(cmd, cwd=None, env=None, timeout=1800):
    try:
        p = subprocess.run(cmd, shell=True, cwd=cwd, env=env, capture_output=True, text=True, timeout=timeout)
        return p.returncode, p.stdout + p.stderr
    except subprocess.TimeoutExpired:
        return 124, "timeout"


def work(args):
    slot, prop, tests, relpath, lineno, old, new, text = args
    wt = f"/tmp/sweep_{prop.replace(',', '')}_{slot}"
    scratch = f"/tmp/simcheck-scratch-sweep-{prop.replace(',', '')}-{slot}"
    if not os.path.isdir(wt):
        sh(f"git -C /repo worktree add -q --detach {wt} HEAD")
    sh("git checkout -q -- .", cwd=wt)
    open(os.path.join(wt, relpath), "w").write(text)
    env = dict(os.environ, PYTHONPATH=wt, PYTHONDONTWRITEBYTECODE="1")
    env.pop("SOLVOR_VERIF", None)
    rc, out = sh(f"timeout 300 {PY} -m pytest -q -x -p no:cacheprovider -o addopts='' {tests} 2>&1 | tail -2", cwd=wt, env=env)
    if " passed" not in out or "failed" in out or "error" in out.lower():
        return (relpath, lineno, old, new, "killed-by-unit-tests", "")
    cenv = dict(os.environ, VERIF_REPO=wt, VERIF_SCRATCH=scratch)
    worst = "SURVIVED"
    for one in prop.split(","):  # several properties anchored in the same file: detected if any of their checks reports it
        rc, out = sh(f"./simcheck {one} --tier quick --no-evidence", cwd=VERIF, env=cenv, timeout=1500)
        first = next((l.strip() for l in out.splitlines() if l.strip().startswith("class=") or "regression of" in l), "")
        if rc == 1:
            return (relpath, lineno, old, new, "detected", f"[{one}] " + first[:110])
        if rc != 0:
            worst = f"harness-rc{rc}"
    return (relpath, lineno, old, new, worst, "")


def main():
    prop, tests, n, seed = sys.argv[1], sys.argv[2], int(sys.argv[3]), int(sys.argv[4])
    files = sys.argv[5:]
    par = int(os.environ.get("SWEEP_PARALLEL", "4"))
    allm = []
    for rel in files:
        spec = rel.split(":")
        relpath = spec[0]
        lo, hi = (int(spec[1]), int(spec[2])) if len(spec) == 3 else (0, 10**9)
        text = open(os.path.join("/repo", relpath)).read()
        for (lineno, old, new, mtext) in mutants_of(relpath, text):
            if lo <= lineno <= hi:
                allm.append((relpath, lineno, old, new, mtext))
    rng = random.Random(seed)
    rng.shuffle(allm)
    chosen = allm[:n]
    print(f"{len(allm)} candidate mutants, running {len(chosen)}", flush=True)
    jobs = [(i % par, prop, tests) + m for i, m in enumerate(chosen)]
    # one slot = one worktree, so jobs of the same slot must not overlap: run slot queues in parallel
    queues = [[j for j in jobs if j[0] == s] for s in range(par)]
    results = []

    def run_queue(q):
        out = []
        for j in q:
            r = work(j)
            print(f"  {r[0]}:{r[1]} `{r[2]}`->`{r[3]}`: {r[4]} {r[5]}", flush=True)
            out.append(r)
        return out

    with cf.ThreadPoolExecutor(max_workers=par) as ex:
        for res in ex.map(run_queue, queues):
            results.extend(res)
    for s in range(par):
        sh(f"git -C /repo worktree remove --force /tmp/sweep_{prop.replace(',', '')}_{s}")
        shutil.rmtree(f"/tmp/simcheck-scratch-sweep-{prop.replace(',', '')}-{s}", ignore_errors=True)
    counts = {}
    for r in results:
        counts[r[4].split("-")[0]] = counts.get(r[4].split("-")[0], 0) + 1
    print("summary:", counts)
    for r in results:
        if r[4] == "SURVIVED":
            print(f"SURVIVOR {r[0]}:{r[1]} `{r[2]}` -> `{r[3]}`")
    json.dump(results, open(f"/tmp/sweep_{prop.replace(',', '')}_{seed}.json", "w"))


if __name__ == "__main__":
    main()
