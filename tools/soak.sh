#!/bin/bash
# soak: thorough tier of every claimed property for several seeds, sequentially; prints one summary line per run.
# usage: tools/soak.sh <budget_s per run> <seed> [<seed> ...]
cd "$(dirname "$0")/.."
B=$1; shift
for S in "$@"; do
  for P in C20 C19 C18 C17 C01 C02 C12 C09 C15 C04; do
    VERIF_SCRATCH=/tmp/simcheck-scratch-soak ./simcheck $P --tier thorough --seed $S --budget $B --no-evidence > /tmp/soak_${P}_${S}.log 2>&1
    rc=$?
    echo "soak seed=$S $P rc=$rc $(tail -1 /tmp/soak_${P}_${S}.log | cut -c1-200)"
    if [ $rc -ne 0 ]; then grep -A1 "^VIOLATION\|HARNESS" /tmp/soak_${P}_${S}.log | head -12; fi
  done
done
