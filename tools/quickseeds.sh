#!/bin/bash
# every quick check under many VERIF_SEED values: the quick tier must be green for any seed
# usage: tools/quickseeds.sh <seed> [<seed> ...]
cd "$(dirname "$0")/.."
for S in "$@"; do
  for P in C01 C02 C04 C09 C12 C15 C17 C18 C19 C20; do
    VERIF_SCRATCH=/tmp/simcheck-scratch-qs VERIF_SEED=$S ./simcheck $P --tier quick --no-evidence > /tmp/qs_${P}_${S}.log 2>&1
    rc=$?
    echo "quick seed=$S $P rc=$rc $(tail -1 /tmp/qs_${P}_${S}.log | sed 's/faults=.*wall/wall/' | cut -c1-120)"
    if [ $rc -ne 0 ]; then grep -A1 "^VIOLATION\|HARNESS" /tmp/qs_${P}_${S}.log | head -12; fi
  done
done
