#!/bin/bash
# usage: evalround.sh <round> <PROP> [<PROP>...]   evaluates /tmp/sa<round>_<PROP>.out/{1,2,3} as <PROP>-agent<round>-<n>
rnd=$1; shift
for p in "$@"; do
  for n in 1 2 3; do
    src=/tmp/sa${rnd}_$p.out/$n
    [ -f $src/patch.diff ] || continue
    /venv/bin/python /verif/tools/seeded.py eval $src $p $p-agent$rnd-$n > /tmp/eval_$p-agent$rnd-$n.log 2>&1
    tail -25 /tmp/eval_$p-agent$rnd-$n.log | grep -E '"name"|"confirmed"|"detected"|"verdict"|suite_pass|demo_' | tr -d '\n'; echo
  done
done
