#!/venv/bin/python
"""Write a sub-agent brief for one property and create its scratch worktree.

usage: mkbrief.py seeded <PROP> <round>      -> /tmp/brief_<PROP>_r<round>.txt, worktree /tmp/sa<round>_<PROP>, out /tmp/sa<round>_<PROP>.out
       mkbrief.py hunt   <PROP> <round>      -> /tmp/hbrief_<PROP>_r<round>.txt, worktree /tmp/hunt<round>_<PROP>
The brief holds only the property text (title, statement, quantifier, anchored files), environment facts and - for
seeded rounds after the first - one line per idea already used for that property, so that new changes differ.
Nothing else from /verif is disclosed.
"""

import glob
import json
import os
import subprocess
import sys

VERIF = os.path.dirname(os.path.dirname(os.path.abspath(__file__)))

FOCUS7 = """
Focus of THIS round (please follow it): look BETWEEN the modules rather than inside one function -
 - helpers shared by several solvers (progress reporting, the Evaluator wrapper, argument checking, shared data structures, adapters, default-argument handling) where a change is harmless for most callers and wrong for one;
 - rarely used but documented options and option COMBINATIONS (two options that each work alone);
 - numeric tolerance sites (eps comparisons, rounding, float/int conversions) where a slightly different but plausible choice is wrong only at particular magnitudes or exact ties;
 - invariants established in one function and relied upon in another (ordering, uniqueness, sortedness, sign conventions, index bases), broken on one path only;
 - anything that needs a stop from outside, a budget running out, a particular seed or a second call to show.
A change that a single plain call with typical arguments exposes is NOT wanted.
"""

FOCUS = """
Focus of THIS round (please follow it): the change should need a FAULT or a SCHEDULE or a HISTORY to manifest, for example
 - a run stopped from outside (progress call-back returning True, a time limit firing, an iteration/node/conflict/restart budget running out) at one particular moment - e.g. right after a new best was found, in the middle of a two-step update, on the very first or the very last tick;
 - a particular sequence of random draws (a seed out of many, or seed=None), a particular order in which set/dict elements happen to be iterated, a particular back-end being (un)available;
 - state that survives between calls or between operations on the same object (caches, memoised values, shared default arguments, objects handed to or received from the caller and edited afterwards), so that only a sequence of >= 2 calls/operations shows it;
 - two cooperating sites that each look fine alone (an invariant established in one function and relied upon in another).
A change that a single plain call with typical arguments exposes is NOT wanted.
"""

RUST_EXTRA = """- The Rust extension is NOT built in your worktree yet. To (re)build it after editing rust/src: `cd @WT@/rust && CARGO_NET_OFFLINE=true /root/.cargo/bin/cargo build --release --offline 2>&1 | tail -3 && cp target/release/lib_solvor_rust.so ../solvor/_solvor_rust.so` (about 25 s; build it once before you start so that backend="rust" works; the .so and rust/target are git-ignored).  Changes may be on the Rust side, in solvor/rust/adapters.py, in solvor/rust/__init__.py or in the Python bodies."""


def prop_text(pid):
    for line in open(os.path.join(VERIF, "properties.jsonl")):
        p = json.loads(line)
        if p["id"] == pid:
            files = ", ".join(p["anchors"]["files"])
            return (f"Property {pid}: {p['title']}\n\nStatement: {p['statement']}\n\nQuantifier: {p['quantifier']['text']}\n\n"
                    f"Files the property is anchored in: {files}")
    raise SystemExit("unknown property " + pid)


def used_ideas(pid):
    out = []
    for m in sorted(glob.glob(os.path.join(VERIF, "seeded", pid + "-*", "meta.json"))):
        s = json.load(open(m)).get("summary")
        if s:
            out.append(" * " + s)
    return out


def main():
    kind, pid, rnd = sys.argv[1:4]
    if kind == "seeded":
        wt, out = f"/tmp/sa{rnd}_{pid}", f"/tmp/sa{rnd}_{pid}.out"
        tpl = open(os.path.join(VERIF, "seeded", "AGENT_BRIEF_TEMPLATE.txt")).read()
        extra = FOCUS7 if int(rnd) >= 7 else FOCUS
        if pid == "C12":
            extra = RUST_EXTRA + "\n" + extra
        ideas = used_ideas(pid)
        if ideas:
            extra += ("\nIdeas ALREADY used in earlier rounds for this property (do something different - other functions, other code paths, other kinds of slip):\n"
                      + "\n".join(ideas) + "\n")
        text = tpl.replace("@EXTRA@", extra).replace("@PROP@", prop_text(pid)).replace("@WT@", wt).replace("@OUT@", out)
        text += "\nKeep every reply and tool call SHORT (never paste long outputs). Never use `git stash`. Finish with a summary of at most 15 lines."
        brief = f"/tmp/brief_{pid}_r{rnd}.txt"
    else:
        wt, out = f"/tmp/hunt{rnd}_{pid}", f"/tmp/hunt{rnd}_{pid}.out"
        text = open(os.path.join(VERIF, "hunters", "BRIEF_EXAMPLE.txt")).read()
        import re
        a, rest = text.split("-----\n", 1)
        _, b = rest.split("-----\n", 1)
        text = a + "-----\n" + prop_text(pid) + "\n-----\n" + b
        text = text.replace("/tmp/hunt_C17.out", out).replace("/tmp/hunt_C17", wt)
        if pid == "C12":
            text = text.replace("- `import solvor.anneal`", RUST_EXTRA.replace("@WT@", wt) + "\n- `import solvor.anneal`")
        extra = sys.argv[4] if len(sys.argv) > 4 else ""
        if extra:
            text += "\n\n" + open(extra).read()
        brief = f"/tmp/hbrief_{pid}_r{rnd}.txt"
    subprocess.run(f"git -C /repo worktree remove --force {wt}", shell=True, capture_output=True)
    r = subprocess.run(f"git -C /repo worktree add -q --detach {wt} HEAD", shell=True, capture_output=True, text=True)
    assert r.returncode == 0, r.stderr
    os.makedirs(out, exist_ok=True)
    open(brief, "w").write(text)
    print(brief, wt, out)


if __name__ == "__main__":
    main()
