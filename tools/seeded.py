#!/venv/bin/python
"""Confirm and evaluate one seeded change in a scratch worktree of /repo (never in /repo itself).

usage: seeded.py eval <src_dir> <PROP> <name> [--skip-tests] [--tier quick]
  src_dir holds patch.diff, demo.py, notes.md (as delivered by a sub-agent)
Writes /verif/seeded/<name>/{patch.diff,demo.py,notes.md,meta.json}; removes the worktree and its build output.
"""

import json
import os
import shutil
import subprocess
import sys
import time

VERIF = os.path.dirname(os.path.dirname(os.path.abspath(__file__)))
PY = "/venv/bin/python"


def sh(cmd, cwd=None, env=None, timeout=3600):
    p = subprocess.run(cmd, shell=True, cwd=cwd, env=env, capture_output=True, text=True, timeout=timeout)
    return p.returncode, p.stdout + p.stderr


def build_rust(wt):
    rc, out = sh("CARGO_NET_OFFLINE=true /root/.cargo/bin/cargo build --release --offline 2>&1 | tail -3 && "
                 "cp target/release/lib_solvor_rust.so ../solvor/_solvor_rust.so", cwd=os.path.join(wt, "rust"))
    return rc, out


def main():
    _, cmd, src, prop, name, *flags = sys.argv
    tier = "quick"
    dst = os.path.join(VERIF, "seeded", name)
    os.makedirs(dst, exist_ok=True)
    for f in ("patch.diff", "demo.py", "notes.md"):
        if os.path.exists(os.path.join(src, f)) and os.path.abspath(src) != os.path.abspath(dst):
            shutil.copyfile(os.path.join(src, f), os.path.join(dst, f))
    wt = f"/tmp/ev_{name}"
    scratch = f"/tmp/simcheck-scratch-{name}"
    sh(f"git -C /repo worktree remove --force {wt}")
    rc, out = sh(f"git -C /repo worktree add -q --detach {wt} HEAD")
    assert rc == 0, out
    meta = {"property": prop, "name": name, "repo_head": sh("git -C /repo rev-parse --short HEAD")[1].strip(), "ran": []}
    old_meta = {}
    if os.path.exists(os.path.join(dst, "meta.json")):
        old_meta = json.load(open(os.path.join(dst, "meta.json")))
    for k in ("summary", "needs", "first_verdict_with_committed_check", "known_blind_spot", "note"):
        if k in old_meta:
            meta[k] = old_meta[k]
    if "--skip-tests" in flags:  # the suite result of the earlier full evaluation still stands (same patch, same tree)
        for k in ("suite_pass", "suite_tail"):
            if old_meta.get(k) is not None:
                meta[k] = old_meta[k]
    env = dict(os.environ, PYTHONPATH=wt, PYTHONDONTWRITEBYTECODE="1")
    env.pop("SOLVOR_VERIF", None)
    patch = open(os.path.join(dst, "patch.diff")).read()
    touches_rust = "rust/src" in patch or prop == "C12"
    try:
        if touches_rust:
            rc, out = build_rust(wt)
            meta["ran"].append(f"clean cargo build rc={rc}")
        rc0, out0 = sh(f"{PY} {dst}/demo.py", cwd=wt, env=env, timeout=600)
        meta["demo_clean_rc"] = rc0
        rc, out = sh(f"git apply {dst}/patch.diff", cwd=wt)
        meta["apply_rc"] = rc
        if rc != 0:
            meta["apply_err"] = out[-500:]
            meta["verdict"] = "patch does not apply to the current tree"
            return meta
        if touches_rust:
            rc, out = build_rust(wt)
            meta["ran"].append(f"mutant cargo build rc={rc}")
            if rc != 0:
                meta["verdict"] = "mutant does not build"
                return meta
        rc1, out1 = sh(f"{PY} {dst}/demo.py", cwd=wt, env=env, timeout=600)
        meta["demo_mutant_rc"] = rc1
        meta["demo_mutant_out"] = out1[-600:]
        if "--skip-tests" not in flags:
            t0 = time.time()
            rc, out = sh(f"{PY} -m pytest -q -p no:cacheprovider -o addopts='' tests --ignore=tests/test_docs.py -x 2>&1 | tail -3", cwd=wt, env=env,
                         timeout=3000)
            meta["suite_tail"] = out.strip()[-300:]
            meta["suite_pass"] = (" passed" in out) and ("failed" not in out) and ("error" not in out.lower())
            meta["ran"].append(f"full test suite with the change: {time.time()-t0:.0f}s")
        # remove the locally built .so so that PYTHONPATH=<wt> checks (other than C12) see a pure-Python tree like a fresh restore
        so = os.path.join(wt, "solvor", "_solvor_rust.so")
        if os.path.exists(so):
            os.unlink(so)
        t0 = time.time()
        cenv = dict(os.environ, VERIF_REPO=wt, VERIF_SCRATCH=scratch)
        rc, out = sh(f"./simcheck {prop} --tier {tier} --no-evidence", cwd=VERIF, env=cenv, timeout=3000)
        meta["check_rc"] = rc
        meta["check_wall_s"] = round(time.time() - t0, 1)
        lines = [l for l in out.splitlines() if l.startswith("VIOLATION") or l.strip().startswith("class=") or "regression of" in l]
        meta["check_lines"] = lines[:8]
        meta["check_tail"] = out.strip().splitlines()[-1][:400] if out.strip() else ""
        meta["detected"] = rc == 1 and any(l.startswith("VIOLATION") for l in lines)
        meta["ran"].append(f"VERIF_REPO=<scratch worktree with the change> ./simcheck {prop} --tier {tier}")
        ok = meta.get("demo_clean_rc") == 0 and meta.get("demo_mutant_rc") == 1 and meta.get("suite_pass", True)
        meta["confirmed"] = bool(ok)
        meta["verdict"] = ("detected" if meta["detected"] else "MISSED") if ok else "not confirmed (demo/suite conditions not met)"
        return meta
    finally:
        sh(f"git -C /repo worktree remove --force {wt}")
        shutil.rmtree(scratch, ignore_errors=True)
        json.dump(meta, open(os.path.join(dst, "meta.json"), "w"), indent=1)
        print(json.dumps({k: meta.get(k) for k in ("name", "property", "confirmed", "detected", "verdict", "demo_clean_rc", "demo_mutant_rc",
                                                    "suite_pass", "check_rc", "check_wall_s", "check_lines")}, indent=1))


if __name__ == "__main__":
    main()
