"""selftest sensitivity [names...] : every mutant patch (own ones under selftest/mutants/*.diff and the confirmed sub-agent
changes under seeded/*/patch.diff) is applied to a scratch worktree of /repo (never to /repo), the quick check of its property
is run against that tree and must exit 1 with a VIOLATION line; the worktree and its build output are removed afterwards."""

from __future__ import annotations

import concurrent.futures as cf
import glob
import json
import os
import shutil
import subprocess

import main as M


def one(name, prop, patch):
    wt = f"/tmp/sens_{name}"
    scratch = f"/tmp/simcheck-scratch-sens-{name}"
    subprocess.run(["git", "-C", "/repo", "worktree", "remove", "--force", wt], capture_output=True)
    r = subprocess.run(["git", "-C", "/repo", "worktree", "add", "-q", "--detach", wt, "HEAD"], capture_output=True, text=True)
    if r.returncode:
        return name, prop, "worktree failed: " + r.stderr[-200:], 0.0
    try:
        r = subprocess.run(["git", "apply", patch], cwd=wt, capture_output=True, text=True)
        if r.returncode:
            return name, prop, "STALE (patch no longer applies)", 0.0
        import time
        t0 = time.time()
        env = dict(os.environ, VERIF_REPO=wt, VERIF_SCRATCH=scratch)
        p = subprocess.run([os.path.join(M.VERIF, "simcheck"), prop, "--tier", "quick", "--no-evidence"], env=env, capture_output=True, text=True)
        hit = p.returncode == 1 and any(l.startswith("VIOLATION") for l in p.stdout.splitlines())
        first = next((l.strip() for l in p.stdout.splitlines() if l.strip().startswith("class=") or "regression of" in l), "")
        return name, prop, ("detected: " + first[:160]) if hit else f"MISSED (rc={p.returncode})", time.time() - t0
    finally:
        subprocess.run(["git", "-C", "/repo", "worktree", "remove", "--force", wt], capture_output=True)
        shutil.rmtree(scratch, ignore_errors=True)


def main(argv, args):
    jobs = []
    blind = set()  # confirmed changes the quick check is known not to reach (documented in DESIGN.md 10.4); reported, not counted
    for f in sorted(glob.glob(os.path.join(M.VERIF, "selftest", "mutants", "*.diff"))):
        name = os.path.basename(f)[:-5]
        jobs.append((name, name.split("-")[0], f))
    for d in sorted(glob.glob(os.path.join(M.VERIF, "seeded", "*"))):
        mp = os.path.join(d, "meta.json")
        if os.path.exists(mp) and os.path.exists(os.path.join(d, "patch.diff")):
            meta = json.load(open(mp))
            if meta.get("confirmed") and not meta.get("void"):
                jobs.append((os.path.basename(d), meta["property"], os.path.join(d, "patch.diff")))
                if meta.get("known_blind_spot"):
                    blind.add(os.path.basename(d))
    if argv:
        jobs = [j for j in jobs if any(a in j[0] for a in argv)]
    missed = 0
    par = int(os.environ.get("VERIF_SENS_PARALLEL", "4"))
    with cf.ThreadPoolExecutor(max_workers=par) as ex:
        for name, prop, verdict, dt in ex.map(lambda j: one(*j), jobs):
            print(f"sensitivity {prop} {name}: {verdict} [{dt:.0f}s]", flush=True)
            if verdict.startswith("MISSED") and name in blind:
                print(f"sensitivity {prop} {name}: known blind spot, not counted", flush=True)
            elif verdict.startswith("MISSED"):
                missed += 1
    print(f"sensitivity: {len(jobs)} mutants, {missed} missed")
    return 1 if missed else 0
