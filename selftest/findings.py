"""selftest findings : exercises the known-findings path, which no check uses on the current tree (every finding is fixed).

A scratch worktree gets the Fenwick mutant; with a temporary findings file holding an OPEN entry scoped to
(FenwickTree, refinement_broken) the C20 check must print KNOWN-FINDING and exit 0; with a second, unrelated mutation
(UnionFind count) on top it must still exit 1 with a VIOLATION for the unlisted defect."""

from __future__ import annotations

import json
import os
import shutil
import subprocess
import tempfile

import main as M


def run(env):
    p = subprocess.run([os.path.join(M.VERIF, "simcheck"), "C20", "--tier", "quick", "--runs", "9000", "--no-evidence"], env=env,
                       capture_output=True, text=True)
    return p.returncode, p.stdout


def main(argv, args):
    wt = "/tmp/sens_findings"
    subprocess.run(["git", "-C", "/repo", "worktree", "remove", "--force", wt], capture_output=True)
    subprocess.run(["git", "-C", "/repo", "worktree", "add", "-q", "--detach", wt, "HEAD"], check=True)
    td = tempfile.mkdtemp(prefix="findings_selftest_")
    ok = True
    try:
        subprocess.run(["git", "apply", os.path.join(M.VERIF, "selftest", "mutants", "C20-fenwick-walk-large-index.diff")], cwd=wt, check=True)
        rep = os.path.join(td, "rep.json")
        json.dump({"case": {"kind": "fw", "init": [1, 1, 1, 1, 1, 1, 1, 1, 1], "ops": [["prefix", 8]]}, "hash_seed": 0}, open(rep, "w"))
        kf = os.path.join(td, "known.json")
        json.dump({"findings": [{"id": "T-fenwick", "property": "C20", "status": "open", "what": "self-test: Fenwick prefix walk wrong for indices > 6",
                                 "reproducer": rep, "match": {"target": "FenwickTree", "class": "refinement_broken"}}]}, open(kf, "w"))
        env = dict(os.environ, VERIF_REPO=wt, VERIF_FINDINGS=kf)
        rc, out = run(env)
        a = rc == 0 and "KNOWN-FINDING: property=C20 T-fenwick" in out and "VIOLATION" not in out
        print(f"findings self-test A (open finding folded, exit 0): {'OK' if a else 'FAILED rc=%d' % rc}")
        ok &= a
        src = os.path.join(wt, "solvor", "utils", "data_structures.py")
        s = open(src).read().replace("        self._count -= 1\n", "        self._count -= 1 if rx != 3 else 0\n")
        open(src, "w").write(s)
        rc, out = run(env)
        b = rc == 1 and "VIOLATION property=C20" in out and "KNOWN-FINDING: property=C20 T-fenwick" in out
        print(f"findings self-test B (a different defect is still a VIOLATION, exit 1): {'OK' if b else 'FAILED rc=%d' % rc}")
        ok &= b
        # fixed entries suppress nothing
        json.dump({"findings": [{"id": "T-fenwick", "property": "C20", "status": "fixed", "commit": "none", "what": "self-test",
                                 "reproducer": rep}]}, open(kf, "w"))
        rc, out = run(env)
        c = rc == 1 and "regression of fixed finding T-fenwick" in out
        print(f"findings self-test C (a fixed entry suppresses nothing): {'OK' if c else 'FAILED rc=%d' % rc}")
        ok &= c
    finally:
        subprocess.run(["git", "-C", "/repo", "worktree", "remove", "--force", wt], capture_output=True)
        shutil.rmtree(td, ignore_errors=True)
    return 0 if ok else 1
