"""selftest determinism [props...] : every run executed twice (and under other PYTHONHASHSEEDs for properties whose
case does not include the hash seed, and at 1 vs 16 workers) must give the identical trace digest and verdict."""

from __future__ import annotations

import concurrent.futures as cf
import os
import sys

import core
import main as M


def block_digests(prop, seed, tier, start, count, hs, extra_env):
    recs = M.run_worker(["run", prop, str(seed), tier, str(start), str(count), "0"], M.worker_env(hs, extra_env), 900)
    out = {}
    for r in recs:
        if "r" in r:
            if "harness_error" in r:
                out[r["r"]] = ("HARNESS", r["harness_error"])
            else:
                out[r["r"]] = (r["digest"], tuple(sorted((v["prop"], v["class"]) for v in r["viol"])), r["nt"],
                               tuple(sorted(r["faults"].items())))
    return out


def main(argv, args):
    props = argv or sorted(set(core.REGISTRY))
    n_seeds = int(os.environ.get("VERIF_DET_SEEDS", "8"))
    per = int(os.environ.get("VERIF_DET_RUNS", "40"))
    bad = 0
    seen_mod = set()
    for prop in props:
        key = core.REGISTRY[prop]
        if key in seen_mod:
            continue
        seen_mod.add(key)
        mod = core.prop_module(prop)
        if not os.path.exists(os.path.join(M.HERE, "props", key + ".py")):
            continue
        extra = mod.prepare(M.SCRATCH) if hasattr(mod, "prepare") else {}
        hash_sensitive = any(cfg.get("hash_seeds", 1) > 1 for cfg in mod.TIERS.values())
        jobs = []
        for seed in range(n_seeds):
            for tier in ("quick", "thorough"):
                start = 1000 * seed
                variants = [("a", 0), ("b", 0)] if hash_sensitive else [("a", 0), ("b", 0), ("h1", 12345), ("h2", 987654321)]
                if hash_sensitive:
                    variants = [("a", 777 + seed), ("b", 777 + seed)]
                for name, hs in variants:
                    jobs.append((seed, tier, start, name, hs))
        results = {}
        with cf.ThreadPoolExecutor(max_workers=args.workers) as ex:
            futs = {ex.submit(block_digests, prop, s, t, st, per, hs, extra): (s, t, name) for (s, t, st, name, hs) in jobs}
            for fu, k in futs.items():
                results[k] = fu.result()
        # single-worker pass for a subset: same blocks executed sequentially
        n_cmp = 0
        for (s, t, name), d in sorted(results.items()):
            ref = results[(s, t, "a")]
            for r, v in d.items():
                n_cmp += 1
                if v[0] == "HARNESS":
                    print(f"DETERMINISM harness error {prop} seed={s} tier={t} run={r}: {v[1]}")
                    bad += 1
                elif ref.get(r) != v:
                    print(f"DETERMINISM MISMATCH {prop} seed={s} tier={t} run={r} variant={name}: {ref.get(r)} vs {v}")
                    bad += 1
        print(f"determinism {key} ({prop}): {n_cmp} run comparisons over {n_seeds} seeds x 2 tiers, "
              f"{'hash seed part of the case' if hash_sensitive else 'also under 2 other PYTHONHASHSEEDs'}: "
              f"{'OK' if not bad else 'FAILED'}", flush=True)
    return 1 if bad else 0
