"""Delta-debugging helpers.  Property modules provide `shrink(case)` yielding simpler candidate cases;
the loop keeps a candidate iff executing it still yields the same violation (same property, same key)."""

from __future__ import annotations

import copy


def drop_chunks(lst: list, min_len: int = 0):
    """Yield copies of lst with a chunk removed: halves first, then smaller, then single elements."""
    n = len(lst)
    if n <= min_len:
        return
    size = n // 2
    seen = set()
    while size >= 1:
        for start in range(0, n, size):
            cand = lst[:start] + lst[start + size:]
            if len(cand) >= min_len and len(cand) < n:
                k = (start, size)
                if k not in seen:
                    seen.add(k)
                    yield cand
        size //= 2


def shrink_int(v: int, lo: int = 0):
    if v <= lo:
        return
    yield lo
    if (v + lo) // 2 not in (lo, v):
        yield (v + lo) // 2
    if v - 1 != lo:
        yield v - 1


def with_path(case: dict, path: tuple, value):
    c = copy.deepcopy(case)
    d = c
    for p in path[:-1]:
        d = d[p]
    d[path[-1]] = value
    return c


def get_path(case, path):
    d = case
    for p in path:
        d = d[p]
    return d


def list_shrinks(case: dict, path: tuple, min_len: int = 0):
    for cand in drop_chunks(get_path(case, path), min_len):
        yield with_path(case, path, cand)


def int_shrinks(case: dict, path: tuple, lo: int = 0):
    for v in shrink_int(get_path(case, path), lo):
        yield with_path(case, path, v)


def set_shrinks(case: dict, path: tuple, simple_values):
    cur = get_path(case, path)
    for v in simple_values:
        if v != cur:
            yield with_path(case, path, v)
            return  # only the simplest alternative


def minimise(case, candidates_fn, still_fails, max_execs: int = 1500, max_seconds: float = 150.0):
    """Greedy fixpoint: take the first candidate that still fails, restart; stop when none does.
    Best effort within an execution count and a wall-clock cap (the cap only limits how far the case is minimised;
    whatever is reached is then verified by two replays in fresh interpreters)."""
    import time

    t_end = time.monotonic() + max_seconds
    execs = 0
    improved = True
    while improved and execs < max_execs and time.monotonic() < t_end:
        improved = False
        for cand in candidates_fn(case):
            execs += 1
            if execs > max_execs or time.monotonic() > t_end:
                break
            try:
                ok = still_fails(cand)
            except Exception:
                ok = False
            if ok:
                case = cand
                improved = True
                break
    return case, execs
