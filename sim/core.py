"""Core helpers of the simulator: seed derivation, trace digests, outcome record.

One integer (VERIF_SEED) decides everything: run r of property P draws every
choice from run_rng(seed, P, r).  Nothing in here reads a clock or an unseeded PRNG.
"""

from __future__ import annotations

import hashlib
import importlib
import json
import random

import os

REPO = os.environ.get("VERIF_REPO", "/repo")  # overridden only by the sensitivity self-test (scratch copies)

# property id -> module under sim/props
REGISTRY = {
    "C01": "sat",
    "C02": "sat",
    "C04": "milp",
    "C09": "flow",
    "C12": "backends",
    "C15": "graphdefs",
    "C17": "colgen",
    "C18": "schedroute",
    "C19": "heuristics",
    "C20": "structs",
}


def prop_module(prop: str):
    return importlib.import_module(f"props.{REGISTRY[prop]}")


def run_rng(seed: int, prop_key: str, r: int) -> random.Random:
    h = hashlib.sha256(f"{seed}/{prop_key}/{r}".encode()).digest()
    return random.Random(int.from_bytes(h[:16], "big"))


def hash_seed_for(seed: int, prop_key: str, block: int, k: int) -> int:
    """PYTHONHASHSEED of a block of runs (k distinct values per check run)."""
    if k <= 1:
        return 0
    h = hashlib.sha256(f"hs/{seed}/{prop_key}/{block % k}".encode()).digest()
    return 1 + int.from_bytes(h[:4], "big") % 4_000_000_000


def canon(obj) -> str:
    return json.dumps(obj, sort_keys=True, separators=(",", ":"), default=_default)


def _default(o):
    if isinstance(o, (set, frozenset)):
        return sorted(o, key=repr)
    if isinstance(o, tuple):
        return list(o)
    return repr(o)


def digest(obj) -> str:
    return hashlib.sha256(canon(obj).encode()).hexdigest()[:16]


class Outcome:
    """Result of executing one case."""

    __slots__ = ("violations", "trace", "nontrivial", "faults", "probes", "steps", "sim_time", "info")

    def __init__(self):
        self.violations: list[dict] = []
        self.trace: list = []  # anything JSON-able; hashed into the digest
        self.nontrivial = False
        self.faults: dict[str, int] = {}
        self.probes: dict[str, int] = {}
        self.steps = 0
        self.sim_time = 0.0
        self.info: dict = {}

    def violate(self, prop: str, cls: str, detail: str, **key):
        """Record an observable contract breach.  key = scope attributes used to match known findings."""
        k = {"class": cls}
        k.update(key)
        self.violations.append({"prop": prop, "class": cls, "detail": detail[:600], "key": k})

    def fault(self, kind: str, n: int = 1):
        self.faults[kind] = self.faults.get(kind, 0) + n

    def probe(self, name: str, n: int = 1):
        self.probes[name] = self.probes.get(name, 0) + n

    def digest(self) -> str:
        return digest(self.trace)

    def to_json(self) -> dict:
        return {
            "viol": self.violations,
            "digest": self.digest(),
            "nt": self.nontrivial,
            "faults": self.faults,
            "probes": self.probes,
            "steps": self.steps,
            "simt": self.sim_time,
            "info": self.info,
        }


def solvor_mod(name: str):
    """solvor/__init__ rebinds solvor.anneal etc. to functions; always go through importlib."""
    return importlib.import_module(f"solvor.{name}")


def fnum(x):
    """JSON-safe number for traces (floats by repr so that -0.0/inf/nan survive)."""
    if isinstance(x, float):
        return repr(x)
    return x
