"""Reference min-cost flow (no solvOR imports): successive shortest paths with Bellman-Ford on an explicit residual
multigraph (every input arc is its own residual pair, so parallel and anti-parallel arcs are exact), plus a brute-force
enumerator used to cross-check the reference itself on tiny instances at worker start-up."""

from __future__ import annotations

import itertools

INF = float("inf")


def has_negative_cycle(n, arcs):
    """arcs: (u, v, cap, cost) over nodes 0..n-1; only arcs with cap > 0 count."""
    dist = [0.0] * n
    for _ in range(n):
        changed = False
        for u, v, cap, c in arcs:
            if cap > 0 and dist[u] + c < dist[v]:
                dist[v] = dist[u] + c
                changed = True
        if not changed:
            return False
    return True


def mcf_supplies(n, arcs, supplies):
    """Minimum cost of a flow meeting the balanced supply vector (supply > 0 produces), or None if infeasible."""
    S, T = n, n + 1
    ext = [(u, v, cap, c) for (u, v, cap, c) in arcs]
    need = 0
    for i, s in enumerate(supplies):
        if s > 0:
            ext.append((S, i, s, 0))
            need += s
        elif s < 0:
            ext.append((i, T, -s, 0))
    return mcf_st(n + 2, ext, S, T, need)


def mcf_st(n, arcs, s, t, demand):
    """Minimum cost of routing `demand` units s->t, or None if infeasible.  Assumes no negative-cost cycle."""
    if demand == 0:
        return 0
    if s == t:
        return None
    # residual arcs: to, cap, cost, rev index
    g = [[] for _ in range(n)]
    for u, v, cap, c in arcs:
        g[u].append([v, cap, c, len(g[v])])
        g[v].append([u, 0, -c, len(g[u]) - 1])
    flow = 0
    cost = 0
    while flow < demand:
        dist = [INF] * n
        prev = [None] * n
        dist[s] = 0
        for _ in range(n):
            changed = False
            for u in range(n):
                if dist[u] == INF:
                    continue
                for k, (v, cap, c, _) in enumerate(g[u]):
                    if cap > 0 and dist[u] + c < dist[v]:
                        dist[v] = dist[u] + c
                        prev[v] = (u, k)
                        changed = True
            if not changed:
                break
        if dist[t] == INF:
            return None
        push = demand - flow
        v = t
        while v != s:
            u, k = prev[v]
            push = min(push, g[u][k][1])
            v = u
        v = t
        while v != s:
            u, k = prev[v]
            g[u][k][1] -= push
            g[v][g[u][k][3]][1] += push
            v = u
        flow += push
        cost += push * dist[t]
    return cost


def brute_supplies(n, arcs, supplies):
    best = None
    for f in itertools.product(*[range(cap + 1) for (_, _, cap, _) in arcs]):
        bal = [0] * n
        for (u, v, _, _), x in zip(arcs, f):
            bal[u] -= x
            bal[v] += x
        if all(bal[i] == -supplies[i] for i in range(n)):
            c = sum(x * a[3] for a, x in zip(arcs, f))
            if best is None or c < best:
                best = c
    return best


def self_test():
    import random

    rng = random.Random(20260925)
    for _ in range(60):
        n = rng.randrange(2, 5)
        arcs = []
        for _ in range(rng.randrange(1, 6)):
            u, v = rng.randrange(n), rng.randrange(n)
            if u == v:
                continue
            arcs.append((u, v, rng.randrange(0, 3), rng.randrange(-2, 5)))
        if has_negative_cycle(n, arcs):
            continue
        sup = [0] * n
        a, b = rng.sample(range(n), 2)
        d = rng.randrange(0, 4)
        sup[a], sup[b] = d, -d
        r1 = mcf_supplies(n, arcs, sup)
        r2 = brute_supplies(n, arcs, sup)
        if r1 != r2:
            raise AssertionError(f"reference min-cost flow disagrees with brute force: {n} {arcs} {sup}: {r1} vs {r2}")


def cheapest_fill(costs_caps, f):
    """Cost of putting f units on parallel arcs [(cost, cap)...] cheapest first; None if f exceeds the pooled capacity."""
    tot = 0
    for c, cap in sorted(costs_caps):
        x = min(cap, f)
        tot += x * c
        f -= x
    return tot if f == 0 else None
