"""simcheck master: dispatches blocks of seeded runs to fresh worker interpreters, folds known findings,
shrinks and re-verifies violations, writes evidence.  Exit 0 held / 1 VIOLATION / 2 harness failure."""

from __future__ import annotations

import argparse
import concurrent.futures as cf
import json
import os
import subprocess
import sys
import tempfile
import time

HERE = os.path.dirname(os.path.abspath(__file__))
VERIF = os.path.dirname(HERE)
sys.path.insert(0, HERE)

import core  # noqa: E402

PY = "/venv/bin/python"
WORKER = os.path.join(HERE, "worker.py")
SCRATCH = os.environ.get("VERIF_SCRATCH", "/tmp/simcheck-scratch")  # re-creatable build/overlay cache, outside /repo and /verif


DIGEST_CAP = 4_000_000  # distinct-trace sets stop growing here (memory); the evidence then reports a lower bound


class HarnessError(Exception):
    pass


def log(*a):
    print(*a, flush=True)


# ----------------------------------------------------------------------------------------------- workers


def worker_env(hash_seed: int, extra: dict | None = None) -> dict:
    env = {k: v for k, v in os.environ.items() if k not in ("DEBUG", "PYTHONPATH", "PYTHONSTARTUP")}
    env["PYTHONHASHSEED"] = str(hash_seed)
    env["PYTHONDONTWRITEBYTECODE"] = "1"
    env["PYTHONPATH"] = core.REPO
    env["SOLVOR_VERIF"] = "1"
    env["PYTHONUNBUFFERED"] = "1"
    if extra:
        env.update(extra)
    return env


def run_worker(args: list[str], env: dict, timeout: float) -> list[dict]:
    env = dict(env)
    env["VERIF_WATCHDOG_S"] = str(int(timeout))
    try:
        p = subprocess.run([PY, WORKER] + args, env=env, capture_output=True, text=True, timeout=timeout + 30, cwd=HERE)
    except subprocess.TimeoutExpired as e:
        raise HarnessError(f"HARNESS-TIMEOUT worker {args} after {timeout}s\n{(e.stderr or '')[-2000:]}")
    recs = []
    for line in p.stdout.splitlines():
        line = line.strip()
        if line.startswith("{"):
            try:
                recs.append(json.loads(line))
            except json.JSONDecodeError:
                pass
    if p.returncode != 0 or not recs or not recs[-1].get("done"):
        raise HarnessError(f"worker {args} rc={p.returncode}\nstderr: {p.stderr[-3000:]}\nstdout tail: {p.stdout[-500:]}")
    return recs


def locate_crash(prop, seed, tier, start, count, env, timeout):
    """Bisect a block whose worker process died: returns (run id, stderr tail) of a run that kills a fresh interpreter, or None
    if the failure does not reproduce (then it is a harness problem, reported as such)."""
    def dies(s, c):
        try:
            recs = run_worker(["run", prop, str(seed), tier, str(s), str(c), "0"], env, timeout)
            if any("harness_error" in r for r in recs):
                return None  # an ordinary harness exception, not a dead interpreter
            return False
        except HarnessError as e:
            return str(e)
    first = dies(start, count)
    if not first:
        return None
    tail = first
    while count > 1:
        half = count // 2
        d = dies(start, half)
        if d:
            count, tail = half, d
        elif d is None:
            return None
        else:
            start, count = start + half, count - half
    d = dies(start, 1)
    return (start, d) if d else None


# ----------------------------------------------------------------------------------------------- findings


def load_findings(prop: str) -> list[dict]:
    path = os.environ.get("VERIF_FINDINGS") or os.path.join(VERIF, "known_findings.json")  # override: findings self-test only
    if not os.path.exists(path):
        return []
    data = json.load(open(path))
    return [f for f in data.get("findings", []) if f["property"] == prop]


def finding_matches(f: dict, viol: dict) -> bool:
    if f.get("status") != "open":
        return False
    key = viol["key"]
    for k, want in f.get("match", {}).items():
        have = key.get(k)
        if isinstance(want, list):
            if have not in want:
                return False
        elif have != want:
            return False
    return True


def env_for_case_file(prop: str, path: str, extra_env: dict) -> dict:
    mod = core.prop_module(prop)
    if not hasattr(mod, "case_env"):
        return extra_env
    data = json.load(open(path))
    first = data if isinstance(data, dict) else (data[0] if data else {})
    return mod.case_env(first.get("case", {}), extra_env)


def exec_case_file(prop: str, path: str, hash_seed: int, extra_env: dict, timeout=300) -> list[dict]:
    recs = run_worker(["exec", prop, path], worker_env(hash_seed, env_for_case_file(prop, path, extra_env)), timeout)
    return [r for r in recs if "done" not in r]


# ----------------------------------------------------------------------------------------------- check


def repo_ident() -> dict:
    def g(*a):
        try:
            return subprocess.run(["git", "-C", core.REPO, *a], capture_output=True, text=True).stdout.strip()
        except Exception:
            return ""
    import hashlib
    diff = g("diff", "HEAD")
    return {"head": g("rev-parse", "HEAD"), "dirty_sha": hashlib.sha256(diff.encode()).hexdigest()[:12] if diff else ""}


def check(prop: str, tier: str, seed: int, runs: int | None, budget_s: float | None, workers: int,
          write_evidence: bool = True, quiet: bool = False) -> int:
    t0 = time.time()
    mod = core.prop_module(prop)
    cfg = dict(mod.TIERS[tier])
    if runs is not None:
        cfg["runs"] = runs
    if budget_s is not None:
        cfg["budget_s"] = budget_s
    block = cfg.get("block", 100)
    n_hash = cfg.get("hash_seeds", 1)
    key = core.REGISTRY[prop]
    os.makedirs(SCRATCH, exist_ok=True)
    os.makedirs(os.path.join(VERIF, "replays"), exist_ok=True)
    extra_env = mod.prepare(SCRATCH) if hasattr(mod, "prepare") else {}
    log(f"simcheck property={prop} tier={tier} VERIF_SEED={seed} runs<={cfg['runs']} block={block} "
        f"hash_seeds={n_hash} workers={workers} budget_s={cfg['budget_s']}")

    exit_code = 0
    known_lines: list[str] = []
    known_reproduced = 0

    # 1. reproducers of recorded findings (open: KNOWN-FINDING; fixed: permanent regression cases)
    findings = load_findings(prop)
    for f in findings:
        path = f["reproducer"] if os.path.isabs(f["reproducer"]) else os.path.join(VERIF, f["reproducer"])
        rep = json.load(open(path))
        hs0 = rep.get("hash_seed", 0) if isinstance(rep, dict) else (rep[0].get("hash_seed", 0) if rep else 0)
        try:
            recs = exec_case_file(prop, path, hs0, extra_env)
        except HarnessError as e:
            if not (isinstance(rep, dict) and (rep.get("expect") or {}).get("class") == "process_crash"):
                raise
            # a reproducer whose recorded failure is "the interpreter dies": the worker dying again IS the regression
            recs = [{"viol": [{"prop": prop, "class": "process_crash", "detail": f"the interpreter died again: {str(e)[-160:]}",
                               "key": {"class": "process_crash"}}]}]
        for r in recs:
            if "harness_error" in r:
                raise HarnessError(f"reproducer {path}: {r['harness_error']}\n{r.get('tb','')}")
        viols = [v for r in recs for v in r["viol"] if v["prop"] == prop]
        if f["status"] == "open":
            hit = [v for v in viols if finding_matches(f, v)]
            other = [v for v in viols if not any(finding_matches(g, v) for g in findings)]
            if hit:
                known_reproduced += 1
                known_lines.append(f"KNOWN-FINDING: property={prop} {f['id']}: {f['what']}")
            else:
                log(f"NOTE: open finding {f['id']} no longer reproduces on this tree")
            if other:
                log(f"VIOLATION property={prop} replay={path}")
                log(f"  (reproducer of {f['id']} now fails differently: {other[0]['class']}: {other[0]['detail']})")
                exit_code = 1
        else:  # fixed: suppresses nothing
            if viols:
                log(f"VIOLATION property={prop} replay={path}")
                log(f"  regression of fixed finding {f['id']}: {viols[0]['class']}: {viols[0]['detail']}")
                exit_code = 1

    # 2. exploration
    n_blocks = (cfg["runs"] + block - 1) // block
    deadline = t0 + cfg["budget_s"]
    agg = {"evals": 0, "digests_nt": set(), "digests": set(), "faults": {}, "probes": {}, "steps": 0, "simt": 0.0,
           "samples": [], "faulted_sample": None, "nt_sample": None, "viol": [], "harness": [], "blocks": 0,
           "hash_seeds": set(), "info": {}}
    sample_every = max(1, block // 2)
    per_block_timeout = cfg.get("block_timeout_s", 600)

    stop = {"bad": 0}

    def do_block(b):
        if time.time() > deadline or stop["bad"] >= 60:
            return None
        hs = core.hash_seed_for(seed, key, b, n_hash)
        start = b * block
        count = min(block, cfg["runs"] - start)
        benv = mod.block_env(b, extra_env) if hasattr(mod, "block_env") else extra_env
        try:
            recs = run_worker(["run", prop, str(seed), tier, str(start), str(count), str(sample_every)],
                              worker_env(hs, benv), per_block_timeout)
        except HarnessError as e:
            # the interpreter itself died (abort, segfault, hard hang) - find the run that kills it and report it as a violation
            crash = locate_crash(prop, seed, tier, start, count, worker_env(hs, benv), per_block_timeout)
            if crash is None:
                raise
            r, tail = crash
            os.environ.setdefault("VERIF_WORLD", benv.get("VERIF_WORLD", "rust"))
            case = mod.generate(core.run_rng(seed, key, r), tier)
            if isinstance(case, dict) and "world" in case:
                case["world"] = benv.get("VERIF_WORLD", case["world"])
            v = {"prop": prop, "class": "process_crash", "detail": f"the interpreter died or hung while executing this case: {tail[-300:]}",
                 "key": {"class": "process_crash"}}
            recs = [{"r": r, "digest": "crash", "nt": False, "faults": {}, "probes": {}, "steps": 0, "simt": 0.0, "viol": [v], "case": case}]
            return hs, recs
        stop["bad"] += sum(1 for r in recs if r.get("viol"))
        return hs, recs

    with cf.ThreadPoolExecutor(max_workers=workers) as ex:
        futs = [ex.submit(do_block, b) for b in range(n_blocks)]
        for fu in futs:
            res = fu.result()
            if res is None:
                continue
            hs, recs = res
            agg["blocks"] += 1
            agg["hash_seeds"].add(hs)
            for r in recs:
                if "r" not in r:
                    continue
                if "harness_error" in r:
                    agg["harness"].append(r)
                    continue
                agg["evals"] += 1
                if len(agg["digests"]) < DIGEST_CAP:
                    agg["digests"].add(r["digest"])
                if r["nt"] and len(agg["digests_nt"]) < DIGEST_CAP:
                    agg["digests_nt"].add(r["digest"])
                for k, v in r["faults"].items():
                    agg["faults"][k] = agg["faults"].get(k, 0) + v
                for k, v in r["probes"].items():
                    agg["probes"][k] = agg["probes"].get(k, 0) + v
                for k, v in r.get("info", {}).items():
                    if isinstance(v, (int, float)):
                        agg["info"][k] = agg["info"].get(k, 0) + v
                agg["steps"] += r["steps"]
                agg["simt"] += r["simt"]
                if "case" in r:
                    s = {"run": r["r"], "hash_seed": hs, "case": r["case"], "digest": r["digest"], "faults": r["faults"]}
                    if len(agg["samples"]) < 1:
                        agg["samples"].append(s)
                    if r["faults"] and agg["faulted_sample"] is None:
                        agg["faulted_sample"] = s
                    if r["nt"] and agg["nt_sample"] is None and not r["faults"]:
                        agg["nt_sample"] = s
                for v in r["viol"]:
                    if v["prop"] == prop:
                        agg["viol"].append({"r": r["r"], "hash_seed": hs, "case": r["case"], "v": v, "tier": tier,
                                            "block_start": (r["r"] // block) * block})

    if agg["harness"]:
        h = agg["harness"][0]
        raise HarnessError(f"harness error in run {h['r']}: {h['harness_error']}\n{h.get('tb', '')}")
    if agg["evals"] == 0:
        raise HarnessError("no run executed within the budget")

    # 3. triage
    new = []
    folded: dict[str, int] = {}
    for it in agg["viol"]:
        m = [f for f in findings if finding_matches(f, it["v"])]
        if m:
            folded[m[0]["id"]] = folded.get(m[0]["id"], 0) + 1
        else:
            new.append(it)
    for f in findings:
        if f["status"] == "open" and folded.get(f["id"]) and not any(f["id"] + ":" in line for line in known_lines):
            known_lines.append(f"KNOWN-FINDING: property={prop} {f['id']}: {f['what']}")
    for line in known_lines:
        n = folded.get(line.split()[2].rstrip(":"), 0)
        log(line + (f" [also hit by {n} explored runs]" if n else ""))

    replay_paths = []
    if new:
        new.sort(key=lambda it: it["r"])
        counts: dict[str, int] = {}
        for it in new:
            k = core.canon(it["v"]["key"])
            counts[k] = counts.get(k, 0) + 1
        for k, c in sorted(counts.items(), key=lambda kv: -kv[1]):
            log(f"  unexplained violation key x{c}: {k}")
        # one replay per distinct violation key (at most 3), smallest run id first
        seen_keys = set()
        for it in new:
            k = core.canon(it["v"]["key"])
            if k in seen_keys:
                continue
            seen_keys.add(k)
            if len(seen_keys) > int(os.environ.get("VERIF_MAX_REPORTS", "3")):
                break
            path = report_violation(prop, seed, it, extra_env, findings)
            replay_paths.append(path)
            log(f"VIOLATION property={prop} replay={path}")
            log(f"  class={it['v']['class']} run={it['r']} detail={it['v']['detail']}")
        exit_code = 1

    # 4. evidence
    wall = time.time() - t0
    if write_evidence:
        samples = [s for s in (agg["samples"] + [agg["nt_sample"], agg["faulted_sample"]]) if s]
        ev = {
            "property_id": prop,
            "tier": tier,
            "seed": seed,
            "level": "exploration",
            "coverage": {
                "evaluations": agg["evals"],
                "distinct_nontrivial": len(agg["digests_nt"]),
                "distinct_traces": len(agg["digests"]),
                "distinct_counts_are_lower_bounds": len(agg["digests"]) >= DIGEST_CAP,
                "rule": mod.RULE,
                "samples": samples[:3],
                "runs_per_hour": round(agg["evals"] / max(wall, 1e-9) * 3600),
                "seeds": {"VERIF_SEED": seed, "run_ids": [0, agg["blocks"] * block - 1] if agg["blocks"] == n_blocks
                          else f"{agg['blocks']} of {n_blocks} blocks of {block} (time budget reached)"},
                "python_hash_seeds": sorted(agg["hash_seeds"]),
                "simulated_time_s": round(agg["simt"], 3),
                "simulated_steps": agg["steps"],
                "fault_counts": agg["faults"],
                "probe_counts": agg["probes"],
                "counters": agg["info"],
                "real_components": mod.REAL,
                "stub_components": mod.STUB,
                "regression_cases_of_fixed_findings_executed": sum(1 for f in findings if f["status"] == "fixed"),
                "known_findings_reproduced": known_reproduced,
                "known_findings_hit_by_exploration": folded,
                "workers": workers,
                "repo": repo_ident(),
                "exhaustive": False,
            },
            "assumptions": getattr(mod, "ASSUMPTIONS", []),
            "wall_s": round(wall, 2),
            "violations": len(new),
        }
        os.makedirs(os.path.join(VERIF, "evidence"), exist_ok=True)
        with open(os.path.join(VERIF, "evidence", f"{prop}.json"), "w") as fh:
            json.dump(ev, fh, indent=1, default=core._default)
    if not quiet:
        log(f"runs={agg['evals']} distinct_nontrivial={len(agg['digests_nt'])} faults={agg['faults']} "
            f"probes={agg['probes']} wall={wall:.1f}s violations={len(new)} exit={exit_code}")
    return exit_code


def report_violation(prop: str, seed: int, it: dict, extra_env: dict, findings: list[dict]) -> str:
    """Shrink (same violation key), write the replay file, re-run it twice in fresh interpreters."""
    hs = it["hash_seed"]
    mod = core.prop_module(prop)
    env = worker_env(hs, mod.case_env(it["case"], extra_env) if hasattr(mod, "case_env") else extra_env)
    with tempfile.TemporaryDirectory(dir=SCRATCH) as td:
        inp, outp = os.path.join(td, "in.json"), os.path.join(td, "out.json")
        json.dump({"case": it["case"], "target": it["v"]}, open(inp, "w"), default=core._default)
        shrunk = None
        try:
            run_worker(["shrink", prop, inp, outp], env, 900)
            shrunk = json.load(open(outp))
        except HarnessError as e:
            log(f"  (shrinking failed, reporting the unshrunk case: {str(e)[:200]})")
    case = it["case"]
    viol = it["v"]
    execs = 0
    if shrunk and shrunk.get("reproduced"):
        case, viol, execs = shrunk["case"], shrunk["violation"], shrunk["execs"]
    path = os.path.join(VERIF, "replays", f"{prop}-s{seed}-r{it['r']}-{core.digest(it['v']['key'])[:6]}.json")
    rep = {"property": prop, "seed": seed, "run": it["r"], "hash_seed": hs, "case": case,
           "expect": {"class": viol["class"], "key": viol["key"], "detail": viol["detail"]},
           "shrink_execs": execs, "original_case": it["case"] if case != it["case"] else None, "repo": repo_ident()}
    json.dump(rep, open(path, "w"), indent=1, default=core._default)
    # replay twice, fresh interpreters
    digs = []
    for _ in range(2):
        try:
            recs = exec_case_file(prop, path, hs, extra_env)
        except HarnessError:
            digs.append((viol["class"] == "process_crash", "crash"))  # replaying a crash case kills the replay worker too
            continue
        ok = any(core.canon(v["key"]) == core.canon(viol["key"]) and v["prop"] == prop for r in recs for v in r.get("viol", []))
        digs.append((ok, recs[0].get("digest")))
    rep["replay_verified"] = digs[0][0] and digs[1][0] and digs[0][1] == digs[1][1]
    rep["expect"]["digest"] = digs[0][1]
    if not rep["replay_verified"] and "block_start" in it:
        # the case alone does not reproduce in a fresh interpreter: the violation may depend on state that earlier runs of the
        # same worker left behind (a module-level cache, say).  Replay the block prefix start..run instead.
        n = it["r"] - it["block_start"] + 1
        hits = []
        for _ in range(2):
            try:
                recs = run_worker(["run", prop, str(seed), it["tier"], str(it["block_start"]), str(n), "0"], env, 900)
                last = [r for r in recs if r.get("r") == it["r"]]
                hits.append(bool(last) and any(core.canon(v["key"]) == core.canon(it["v"]["key"]) and v["prop"] == prop
                                               for v in last[0].get("viol", [])))
            except HarnessError:
                hits.append(False)
        if all(hits):
            rep["mode"] = "block_prefix"
            rep["block_prefix"] = {"seed": seed, "tier": it["tier"], "start": it["block_start"], "count": n}
            rep["case"] = it["case"]
            rep["expect"] = {"class": it["v"]["class"], "key": it["v"]["key"], "detail": it["v"]["detail"]}
            rep["replay_verified"] = True
            rep["note"] = ("the minimised case alone does not fail in a fresh interpreter; the violation needs the state left by the "
                           "preceding runs of its block, so the replay re-executes that prefix (history-dependent defect)")
    json.dump(rep, open(path, "w"), indent=1, default=core._default)
    if not rep["replay_verified"]:
        log(f"  WARNING: replay of {path} was not bit-identical twice: {digs}")
    return path


def replay(path: str) -> int:
    path = os.path.abspath(path)
    rep = json.load(open(path))
    first = rep if isinstance(rep, dict) else (rep[0] if rep else {})
    prop = first.get("property") or os.path.basename(path).split("-")[0]  # findings/<PROP>-*.json reproducers
    if not isinstance(rep, dict):
        rep = {"hash_seed": first.get("hash_seed", 0)}
    mod = core.prop_module(prop)
    os.makedirs(SCRATCH, exist_ok=True)
    extra_env = mod.prepare(SCRATCH) if hasattr(mod, "prepare") else {}
    if rep.get("mode") == "block_prefix":
        bp = rep["block_prefix"]
        env = worker_env(rep.get("hash_seed", 0), mod.case_env(rep["case"], extra_env) if hasattr(mod, "case_env") else extra_env)
        recs = run_worker(["run", prop, str(bp["seed"]), bp["tier"], str(bp["start"]), str(bp["count"]), "0"], env, 900)
        last = [r for r in recs if r.get("r") == bp["start"] + bp["count"] - 1]
        for v in (last[0].get("viol", []) if last else []):
            if v["prop"] == prop:
                log(f"VIOLATION property={prop} replay={path}")
                log(f"  class={v['class']} detail={v['detail']} (after replaying the {bp['count'] - 1} preceding runs of the block)")
                return 1
        log("replay (block prefix): no violation on this tree")
        return 0
    try:
        recs = exec_case_file(prop, path, rep.get("hash_seed", 0), extra_env)
    except HarnessError as e:
        if (rep.get("expect") or {}).get("class") == "process_crash":
            log(f"VIOLATION property={prop} replay={path}")
            log(f"  class=process_crash detail=the replay worker died again: {str(e)[-200:]}")
            return 1
        raise
    rc = 0
    for r in recs:
        if "harness_error" in r:
            raise HarnessError(r["harness_error"] + "\n" + r.get("tb", ""))
        for v in r["viol"]:
            if v["prop"] == prop:
                log(f"VIOLATION property={prop} replay={path}")
                log(f"  class={v['class']} detail={v['detail']}")
                rc = 1
        log(f"digest={r['digest']} expected={rep.get('expect', {}).get('digest')}")
    if rc == 0:
        log("replay: no violation on this tree")
    return rc


def main():
    ap = argparse.ArgumentParser(prog="simcheck")
    ap.add_argument("target", nargs="?")
    ap.add_argument("rest", nargs="*")
    ap.add_argument("--tier", default=os.environ.get("VERIF_TIER") or "quick", choices=["quick", "thorough"])
    ap.add_argument("--seed", type=int, default=int(os.environ.get("VERIF_SEED") or 0))
    ap.add_argument("--runs", type=int, default=None)
    ap.add_argument("--budget", type=float, default=float(os.environ["VERIF_BUDGET_S"]) if os.environ.get("VERIF_BUDGET_S") else None)
    ap.add_argument("--workers", type=int, default=int(os.environ.get("VERIF_WORKERS") or min(16, os.cpu_count() or 4)))
    ap.add_argument("--replay", default=None)
    ap.add_argument("--no-evidence", action="store_true")
    a = ap.parse_args()
    try:
        if a.replay:
            sys.exit(replay(a.replay))
        if a.target == "setup":
            os.makedirs(SCRATCH, exist_ok=True)
            os.makedirs(os.path.join(VERIF, "evidence"), exist_ok=True)
            os.makedirs(os.path.join(VERIF, "replays"), exist_ok=True)
            import importlib
            importlib.import_module("solvor") if core.REPO in sys.path else None
            log("setup ok")
            sys.exit(0)
        if a.target == "selftest":
            sys.path.insert(0, os.path.join(VERIF, "selftest"))
            import importlib
            st = importlib.import_module(a.rest[0])
            sys.exit(st.main(a.rest[1:], a))
        if a.target not in core.REGISTRY:
            log(f"unknown property {a.target}; claimed: {sorted(core.REGISTRY)}")
            sys.exit(2)
        sys.exit(check(a.target, a.tier, a.seed, a.runs, a.budget, a.workers, write_evidence=not a.no_evidence))
    except HarnessError as e:
        log(f"HARNESS-ERROR: {e}")
        sys.exit(2)


if __name__ == "__main__":
    main()
