"""C12 - Rust and Python back-ends are observably equivalent.

Seam S6: the back-end router.  Two replicas (the extension built by this check from <repo>/rust, and the Python
bodies) behind the real `with_rust_backend` wrapper; one seeded request stream is issued under backend="python",
backend="rust" and the default, and - in a second world, an overlay without the extension - under the injected
fault "extension unavailable" (default must give the Python answer, explicit "rust" must raise ImportError)."""

from __future__ import annotations

import copy
import os
import shutil
import subprocess

import budget
import shrink as shr
from core import REPO, Outcome

PROP = "C12"
RULE = ("each run = one request (one of the nine accelerated functions, n<=7 nodes, integer/dyadic weights, duplicate and "
        "anti-parallel edges with different weights, self loops, isolated nodes, negative weights/cycles where supported, with and "
        "without target, directed/undirected, allow_forest, PageRank damping/tol/max_iter) routed three ways (python, rust, "
        "default) in the world 'extension built from the working tree' or, every 6th block, in the world 'extension unavailable'; "
        "answers compared per the statement and every returned path/order/tree validated against the problem; non-trivial: both "
        "replicas really ran (adapter path and Python body) on an input with >=1 duplicate/anti-parallel/negative/self-loop "
        "feature; distinct = digest of (function, input, answers)")
REAL = ["solvor.rust.with_rust_backend/get_backend/rust_available (router)", "solvor.rust.adapters (nine adapters)",
        "Rust extension built from <repo>/rust by this check (cargo build --release --offline)",
        "Python bodies: floyd_warshall, bellman_ford, dijkstra_edges, bfs_edges, dfs_edges, kruskal, pagerank_edges, "
        "strongly_connected_components_edges, topological_sort_edges"]
STUB = []
ASSUMPTIONS = ["inputs valid (node indices in range, n_nodes>=1, non-negative weights for dijkstra)",
               "dyadic weights, so float sums are exact in both languages"]
TIERS = {
    "quick": {"runs": 320000, "block": 4000, "budget_s": 90},
    "thorough": {"runs": 60000000, "block": 8000, "budget_s": 900},
}
FUNCS = ["floyd_warshall", "bellman_ford", "dijkstra_edges", "bfs_edges", "dfs_edges", "kruskal", "pagerank_edges",
         "strongly_connected_components_edges", "topological_sort_edges"]
INF = float("inf")


# ------------------------------------------------------------------------------------------- build (per check run)


def prepare(scratch: str) -> dict:
    src = os.path.join(scratch, "rust_src")
    target = os.path.join(scratch, "rust_target")
    os.makedirs(src, exist_ok=True)
    subprocess.run(["rsync", "-a", "--delete", "--exclude", "target", os.path.join(REPO, "rust") + "/", src + "/"], check=True)
    env = dict(os.environ, CARGO_NET_OFFLINE="true", CARGO_TARGET_DIR=target, PATH=os.environ.get("PATH", "") + ":/root/.cargo/bin")
    p = subprocess.run(["cargo", "build", "--release", "--offline", "--manifest-path", os.path.join(src, "Cargo.toml")],
                       env=env, capture_output=True, text=True)
    if p.returncode != 0:
        from main import HarnessError
        raise HarnessError("cargo build of <repo>/rust failed:\n" + p.stderr[-3000:])
    so = os.path.join(target, "release", "lib_solvor_rust.so")
    out = {}
    for name, with_so in (("ov_rust", True), ("ov_py", False)):
        ov = os.path.join(scratch, name)
        pkg = os.path.join(ov, "solvor")
        os.makedirs(pkg, exist_ok=True)
        subprocess.run(["rsync", "-a", "--delete", "--exclude", "*.so", "--exclude", "__pycache__", os.path.join(REPO, "solvor") + "/",
                        pkg + "/"], check=True)
        if with_so:
            shutil.copyfile(so, os.path.join(pkg, "_solvor_rust.so"))
        out[name] = ov
    return {"PYTHONPATH": out["ov_rust"], "VERIF_OV_RUST": out["ov_rust"], "VERIF_OV_PY": out["ov_py"], "VERIF_WORLD": "rust"}


def block_env(block: int, extra: dict) -> dict:
    if block % 6 == 5:
        return dict(extra, PYTHONPATH=extra["VERIF_OV_PY"], VERIF_WORLD="norust")
    return extra


def case_env(case: dict, extra: dict) -> dict:
    if case.get("world") == "norust":
        return dict(extra, PYTHONPATH=extra["VERIF_OV_PY"], VERIF_WORLD="norust")
    return extra


# ------------------------------------------------------------------------------------------- generation


def gen_edges(rng, n, weighted, neg, dense=False):
    m = rng.randrange(0, 3 * n + 2)
    if dense:  # hundreds of edges, many per node
        m = rng.randrange(max(256, 4 * n + 1), max(256, 4 * n + 1) + 400)
    edges = []
    mode = rng.choice(["ints", "dyadic", "dyadic", "tiny"])
    if rng.random() < 0.03:
        mode = "huge"  # multiples of 2**1020 (~1e307): finite weights whose path sums overflow to -inf / +inf after a few edges
    tiny = 2.0 ** -40  # ~9e-13: still exact in both languages, but far below any plausible "rounding noise" tolerance
    for _ in range(m):
        x = rng.random()
        if edges and x < 0.15:  # duplicate with another weight
            u, v = edges[rng.randrange(len(edges))][:2]
        elif edges and x < 0.3:  # anti-parallel
            v, u = edges[rng.randrange(len(edges))][:2]
        elif x < 0.37:
            u = v = rng.randrange(n)
        else:
            u, v = rng.randrange(n), rng.randrange(n)
        if weighted:
            lo = -3 if neg else 0
            w = rng.randrange(lo * 4, 41) / 4.0 if mode == "dyadic" else rng.randrange(lo, 10)
            if mode == "tiny":
                w = rng.randrange(lo, 10) * tiny
            if mode == "huge":
                # kept acyclic (u < v): a negative cycle whose weight overflows is undetectable by comparison (-inf < -inf is
                # false) and makes BOTH back-ends walk a parent cycle forever - a defect of the algorithm they share (C11's
                # territory), not a difference between them
                w = rng.randrange(lo * 3, 10) * 2.0 ** 1020
                if u == v:
                    v = (u + 1) % n
                u, v = min(u, v), max(u, v)
            edges.append([u, v, w])
        else:
            edges.append([u, v])
    return edges


def generate(rng, tier):
    fn = rng.choice(FUNCS)
    n = rng.randrange(1, 8 if tier == "quick" else 10)
    if rng.random() < 0.03:
        n = rng.randrange(12, 33)  # a few dozen nodes: longer paths, deeper union-find trees, more PageRank sweeps
    case = {"fn": fn, "n": n, "world": os.environ.get("VERIF_WORLD", "rust"), "by_keyword": rng.random() < 0.2}
    dense = rng.random() < 0.004
    if dense:
        n = case["n"] = rng.randrange(8, 70)
    if fn == "floyd_warshall":
        case["edges"] = gen_edges(rng, n, True, rng.random() < 0.4, dense)
        case["kw"] = {"directed": rng.random() < 0.5}
    elif fn == "bellman_ford":
        case["edges"] = gen_edges(rng, n, True, rng.random() < 0.5 and not dense, dense)
        case["start"] = rng.randrange(n)
        case["kw"] = {"target": rng.choice([None, rng.randrange(n)])}
    elif fn == "dijkstra_edges":
        case["edges"] = gen_edges(rng, n, True, False, dense)
        case["start"] = rng.randrange(n)
        case["kw"] = {"target": rng.choice([None, rng.randrange(n)])}
    elif fn in ("bfs_edges", "dfs_edges"):
        case["edges"] = gen_edges(rng, n, False, False, dense)
        case["start"] = rng.randrange(n)
        case["kw"] = {"target": rng.choice([None, rng.randrange(n)])}
    elif fn == "kruskal":
        case["edges"] = gen_edges(rng, n, True, rng.random() < 0.3, dense)
        case["kw"] = {"allow_forest": rng.random() < 0.5}
        if rng.random() < 0.01:
            # a long path whose edges arrive in weight order, each written (new node, component built so far) or the other way
            # round, closed by one edge from the far end: the union-find behind the Python body must stay shallow
            n = case["n"] = rng.choice([1100, 1500, 3000])
            flip = rng.random() < 0.5
            # (the path covers nodes 0..n-2; the last, dearest edge ties node n-1 to the far end, so it must be examined)
            case["edges"] = [([i + 1, i, float(i)] if not flip else [i, i + 1, float(i)]) for i in range(n - 2)]
            if rng.random() < 0.3:  # ... or always through the first node of the component
                case["edges"] = [([i + 1, 0, float(i)] if not flip else [0, i + 1, float(i)]) for i in range(n - 2)]
            case["edges"].append(rng.choice([[0, n - 1, float(n)], [n - 1, 0, float(n)], [n // 2, n - 1, float(n)]]))
            return case
    elif fn == "pagerank_edges":
        case["edges"] = gen_edges(rng, n, False, False)
        case["kw"] = {"damping": rng.choice([0.5, 0.85, 0.99, 0.125]), "max_iter": rng.choice([0, 1, 2, 5, 100, 1000]),
                      "tol": rng.choice([1e-3, 1e-6, 1e-9, 0.0])}
        if rng.random() < 0.002:
            # thousands of in-links on one node and a tolerance near the rounding noise of such a sum: the replicas must still
            # agree on whether (and when) the iteration has converged
            n = case["n"] = rng.choice([1500, 2500, 4000])
            hubs = rng.sample(range(n), rng.choice([1, 1, 2]))
            case["edges"] = [[i, h] for h in hubs for i in range(n) if i != h and rng.random() < 0.97]
            case["edges"] += [[hubs[0], rng.randrange(n)] for _ in range(rng.choice([0, 0, 3]))]
            case["kw"] = {"damping": 0.85, "max_iter": 400, "tol": rng.choice([1e-13, 1e-13, 3e-13, 1e-12])}
            return case
    else:
        case["edges"] = gen_edges(rng, n, False, False)
        case["kw"] = {}
        if fn == "topological_sort_edges" and rng.random() < 0.6:  # make acyclic instances common ...
            keep_loops = rng.random() < 0.3  # ... and instances whose only cycle is a self loop
            case["edges"] = [[min(u, v), max(u, v)] for u, v in case["edges"] if u != v or keep_loops]
    # optional arguments are left out now and then, so that both replicas run on their own defaults
    # (an adapter whose default differs from the Python body's is a visible back-end difference)
    for k in list(case["kw"]):
        if rng.random() < 0.3:
            del case["kw"][k]
    if fn in ("strongly_connected_components_edges", "topological_sort_edges", "bfs_edges", "dfs_edges") and rng.random() < 0.01:
        # one deep path (a thousand or more nodes in a row, plus a few extra edges): depth, not size, is the point
        n = case["n"] = rng.choice([1100, 1500, 3000, 3000, 60000])  # 60000: deeper than a native stack survives with one frame per node
        perm = list(range(n))
        if rng.random() < 0.5:
            rng.shuffle(perm)
        case["edges"] = [[perm[i], perm[i + 1]] for i in range(n - 1)]
        for _ in range(rng.randrange(0, 4)):
            i = rng.randrange(n - 1)
            case["edges"].append([perm[i], perm[rng.randrange(i + 1, n)]])  # forward chords keep it acyclic
        if "start" in case:
            case["start"] = perm[0]
            case["kw"] = {"target": rng.choice([None, perm[-1]])} if "target" in case["kw"] or rng.random() < 0.5 else {}
        return case
    if case["edges"] and rng.random() < 0.3:
        # the caller then replaces one entry of the same list in place (same length) and asks again
        old = case["edges"][rng.randrange(len(case["edges"]))]
        new = [rng.randrange(n), rng.randrange(n)] + [rng.choice([0, 1, 7, 2.5, 40])] * (len(old) - 2)
        if fn == "topological_sort_edges" and new[0] > new[1]:
            new[:2] = new[1], new[0]
        case["edit"] = [rng.randrange(len(case["edges"])), new]
    return case


# ------------------------------------------------------------------------------------------- execution and oracles


def call(case, backend, edges=None):
    import importlib
    import solvor

    fn = getattr(solvor, case["fn"])
    if edges is None:
        edges = [tuple(e) for e in case["edges"]]
    kw = dict(case["kw"])
    if backend is not None:
        kw["backend"] = backend
    name = case["fn"]
    if case.get("by_keyword"):
        # every argument by its documented name (the README calls bellman_ford(start=0, edges=..., n_nodes=4))
        if name == "bellman_ford":
            return fn(start=case["start"], edges=edges, n_nodes=case["n"], **kw)
        if name in ("dijkstra_edges", "bfs_edges", "dfs_edges"):
            return fn(n_nodes=case["n"], edges=edges, source=case["start"], **kw)
        return fn(n_nodes=case["n"], edges=edges, **kw)
    if name == "bellman_ford":
        return fn(case["start"], edges, case["n"], **kw)
    if name in ("dijkstra_edges", "bfs_edges", "dfs_edges"):
        return fn(case["n"], edges, case["start"], **kw)
    return fn(case["n"], edges, **kw)


def minw(case):
    d = {}
    for u, v, w in case["edges"]:
        if (u, v) not in d or w < d[(u, v)]:
            d[(u, v)] = w
    return d


def validate(case, res, label):
    """validate_() guarded: an answer of the wrong shape is an invalid answer, not a harness error."""
    try:
        return validate_(case, res, label)
    except (KeyError, IndexError, TypeError, ValueError, AttributeError) as e:
        return f"{label}: malformed answer {res.solution!r} (status {res.status.name}): {type(e).__name__}: {e}"


def compare(case, a, b, la, lb):
    try:
        return compare_(case, a, b, la, lb)
    except (KeyError, IndexError, TypeError, ValueError, AttributeError) as e:
        return "malformed_answer", f"{lb} answer {b.solution!r} cannot be compared with {la} answer {a.solution!r}: {type(e).__name__}: {e}"


def validate_(case, res, label):
    """Checks that a single answer is valid for the problem (paths real, weights sum, orders valid). Returns error or None."""
    name = case["fn"]
    st = res.status.name
    n = case["n"]
    tgt = case["kw"].get("target")
    if name in ("bellman_ford", "dijkstra_edges") and tgt is not None and st in ("OPTIMAL", "FEASIBLE"):
        path = res.solution
        mw = minw(case)
        if not path or path[0] != case["start"] or path[-1] != tgt:
            return f"{label}: path {path} does not go from {case['start']} to {tgt}"
        tot = 0.0
        for a, b in zip(path, path[1:]):
            if (a, b) not in mw:
                return f"{label}: path {path} uses the non-existent edge {(a, b)}"
            tot += mw[(a, b)]
        if tot != res.objective:
            return f"{label}: path {path} weighs {tot} but distance {res.objective} is reported"
    if name in ("bfs_edges", "dfs_edges") and tgt is not None and st in ("OPTIMAL", "FEASIBLE"):
        path = res.solution
        es = {(u, v) for u, v in case["edges"]}
        if not path or path[0] != case["start"] or path[-1] != tgt:
            return f"{label}: path {path} does not go from {case['start']} to {tgt}"
        for a, b in zip(path, path[1:]):
            if (a, b) not in es:
                return f"{label}: path {path} uses the non-existent edge {(a, b)}"
        if res.objective != len(path) - 1:
            return f"{label}: path {path} has {len(path)-1} hops but objective {res.objective}"
    if name == "kruskal" and st in ("OPTIMAL", "FEASIBLE"):
        tree = [tuple(e) for e in res.solution]
        pool = [tuple(e) for e in case["edges"]]
        lab = list(range(n))
        tot = 0.0
        for e in tree:
            if e not in pool:
                return f"{label}: tree edge {e} is not an input edge"
            pool.remove(e)
            u, v, w = e
            if lab[u] == lab[v]:
                return f"{label}: tree edges {tree} contain a cycle"
            lu, lv = lab[u], lab[v]
            lab = [lu if x == lv else x for x in lab]
            tot += w
        if tot != res.objective:
            return f"{label}: tree weighs {tot} but objective {res.objective}"
        if st == "OPTIMAL" and len(tree) != n - 1:
            return f"{label}: OPTIMAL with {len(tree)} edges for {n} nodes"
    if name == "strongly_connected_components_edges":
        comps = [list(c) for c in res.solution]
        flat = sorted(x for c in comps for x in c)
        if flat != list(range(n)):
            return f"{label}: components {comps} are not a partition of the nodes"
        pos = {x: i for i, c in enumerate(comps) for x in c}
        for u, v in case["edges"]:
            if pos[u] < pos[v]:
                return f"{label}: not sinks-first: edge {(u, v)} goes from component #{pos[u]} to the later #{pos[v]}"
    if name == "topological_sort_edges" and st == "OPTIMAL":
        order = list(res.solution)
        if sorted(order) != list(range(n)):
            return f"{label}: order {order} is not a permutation of the nodes"
        pos = {x: i for i, x in enumerate(order)}
        for u, v in case["edges"]:
            if pos[u] >= pos[v]:
                return f"{label}: edge {(u, v)} points backwards in order {order}"
    if name == "pagerank_edges":
        sc = res.solution
        if sorted(sc) != list(range(n)):
            return f"{label}: scores keyed by {sorted(sc)}"
        if any(s < 0 for s in sc.values()) or abs(sum(sc.values()) - 1.0) > 1e-6:
            return f"{label}: scores {sc} are not a distribution"
    return None


def compare_(case, a, b, la, lb):
    """a = python answer, b = other route.  Returns (class, detail) or None."""
    name = case["fn"]
    sa, sb = a.status.name, b.status.name
    tgt = case["kw"].get("target")
    if name == "pagerank_edges":
        tol = case["kw"].get("tol", 1e-6)
        d = max(abs(a.solution[i] - b.solution[i]) for i in range(case["n"]))
        if d > max(tol, 1e-12):  # "equal within the convergence tolerance", literally; the floor is for tol = 0 / tiny tol
            return "answers_differ", f"PageRank scores differ by {d} > tol: {la}={a.solution} {lb}={b.solution}"
        if sa != sb:
            # float summation order may flip the convergence test only when the last max_diff sits on tol itself
            # (the Python body reports that max_diff as its objective)
            # (at tol = 0 no max_diff can be below tol in either replica, so there is nothing to excuse)
            # (the band was 1e-12 wide until a tolerance of 1e-13 on a hub with thousands of in-links showed a real difference
            # hiding inside it: Rust summed plainly, Python's sum() is compensated)
            if tol == 0 or abs(a.objective - tol) > 1e-15 + 1e-9 * tol:
                return "status_differs", (f"{la} {sa} after {a.iterations} iterations (last max_diff {a.objective!r}, tol {tol}), "
                                          f"{lb} {sb} after {b.iterations}")
        return None
    if sa != sb:
        return "status_differs", f"{la} says {sa}, {lb} says {sb}"
    if sa not in ("OPTIMAL", "FEASIBLE"):
        return None
    if name == "floyd_warshall":
        if [list(r) for r in a.solution] != [list(r) for r in b.solution]:
            return "answers_differ", f"distance matrices differ: {la}={a.solution} {lb}={[list(r) for r in b.solution]}"
    elif name in ("bellman_ford", "dijkstra_edges"):
        if tgt is None:
            if dict(a.solution) != dict(b.solution):
                return "answers_differ", f"distances differ: {la}={a.solution} {lb}={b.solution}"
        elif a.objective != b.objective:
            return "answers_differ", f"distance to {tgt}: {la}={a.objective} {lb}={b.objective}"
    elif name in ("bfs_edges", "dfs_edges"):
        if tgt is None:
            if set(a.solution) != set(b.solution):
                return "answers_differ", f"reachable sets differ: {la}={a.solution} {lb}={b.solution}"
            if list(a.solution) != list(b.solution):
                return "reachable_list_differs", f"same reachable set, different list: {la}={list(a.solution)} {lb}={list(b.solution)}"
        elif name == "bfs_edges" and a.objective != b.objective:
            return "answers_differ", f"hops to {tgt}: {la}={a.objective} {lb}={b.objective}"
    elif name == "kruskal":
        if a.objective != b.objective:
            return "answers_differ", f"total weight: {la}={a.objective} {lb}={b.objective}"
        if len(a.solution) != len(b.solution):
            return "answers_differ", f"forest sizes: {la}={len(a.solution)} {lb}={len(b.solution)}"
    elif name == "strongly_connected_components_edges":
        pa = sorted(sorted(c) for c in a.solution)
        pb = sorted(sorted(c) for c in b.solution)
        if pa != pb:
            return "answers_differ", f"component partitions differ: {la}={pa} {lb}={pb}"
        if a.objective != b.objective:
            return "answers_differ", f"component counts differ: {la}={a.objective} {lb}={b.objective}"
    return None


class _SolverFailure(BaseException):
    pass


def _errors():
    """Exceptions that count as the back-end failing on a valid input: every Exception plus pyo3's PanicException
    (a Rust panic surfaces as a BaseException subclass)."""
    try:
        import solvor._solvor_rust as r  # noqa: F401
        import pyo3_runtime  # type: ignore  # noqa: F401
    except Exception:
        pass
    return (Exception,)


ERRORS = (Exception,)


STEP_LIMIT = 400_000  # Python-side work of one request on <=10 nodes (adapter glue and Python bodies); Rust code is not counted


_limit = [STEP_LIMIT]


def guarded(fn, *a, **k):
    """Run fn under a step budget; convert a Rust panic (BaseException subclass named PanicException) into a RuntimeError."""
    try:
        with budget.steps(_limit[0]):
            return fn(*a, **k)
    except budget.StepBudgetExceeded:
        raise RuntimeError(f"did not return within {_limit[0]} Python-side events") from None
    except (KeyboardInterrupt, SystemExit, GeneratorExit):
        raise
    except Exception:
        raise
    except BaseException as e:  # pyo3_runtime.PanicException
        raise RuntimeError(f"{type(e).__name__}: {e}") from None


def execute(case) -> Outcome:
    import importlib

    if case.get("path_n"):
        # one path of path_n nodes, written as a rule instead of a million-entry list (sizes beyond the generic functions'
        # default iteration limit)
        pn = case["path_n"]
        w = [1.0] if case["fn"] == "dijkstra_edges" else []
        case = dict(case, n=pn, edges=[[i, i + 1] + w for i in range(pn - 1)])
    _limit[0] = STEP_LIMIT + 60 * (case["n"] + len(case["edges"]))  # small cases keep the flat budget
    if case["fn"] == "pagerank_edges":  # sweeps x (nodes + links): only matters for the hub family (thousands of nodes, hundreds of sweeps)
        _limit[0] += 8 * (case["kw"].get("max_iter", 100) + 2) * (case["n"] + len(case["edges"]))
    o = Outcome()
    rmod = importlib.import_module("solvor.rust")
    avail = rmod.rust_available()
    world = case.get("world", "rust")
    try:
        importlib.import_module("solvor._solvor_rust")
        really = True
    except ImportError:
        really = False
    if really != (world == "rust"):  # harness sanity: the overlay of this world is not in effect
        raise RuntimeError(f"world {world} but the extension import says {really} (PYTHONPATH={os.environ.get('PYTHONPATH')})")
    budget.install(["solvor.rust.adapters", "solvor.rust", "solvor.floyd_warshall", "solvor.bellman_ford", "solvor.dijkstra", "solvor.bfs",
                    "solvor.mst", "solvor.pagerank", "solvor.scc"])
    if avail != really:
        o.violate(PROP, "availability_probe_wrong", f"rust_available() says {avail} but importing the extension "
                  f"{'works' if really else 'fails'}", route="fallback", target=case["fn"])
    name = case["fn"]
    key = dict(target=name)
    try:
        py = guarded(call, case, "python")
    except ERRORS as e:
        o.violate(PROP, f"exception:{type(e).__name__}", f"backend=python raised {type(e).__name__}: {e}", route="python", **key)
        return o
    err = validate(case, py, "python")
    if err:
        o.violate(PROP, "invalid_answer", err, route="python", **key)
    feats = features(case)
    if world == "rust":
        # the three routes share ONE input list, as a caller comparing back-ends would; afterwards the Python
        # route must still give the answer it gives on a pristine copy (an adapter must not leak state through its input)
        shared = [tuple(e) for e in case["edges"]]
        for route, be in (("rust", "rust"), ("default", None)):
            try:
                r = guarded(call, case, be, shared)
            except ERRORS as e:
                o.violate(PROP, f"exception:{type(e).__name__}", f"backend={route} raised {type(e).__name__}: {e} (python gave {py.status.name})",
                          route=route, **key)
                continue
            err = validate(case, r, route)
            if err:
                o.violate(PROP, "invalid_answer", err, route=route, **key)
                continue
            d = compare(case, py, r, "python", route)
            if d:
                o.violate(PROP, d[0], f"{name}: {d[1]}", route="rust" if route == "default" else route, **key)
            o.trace.append([route, r.status.name, repr(r.objective)])
        try:
            again = guarded(call, case, "python", shared)
            d = compare(case, py, again, "python(pristine input)", "python(after rust calls on the same list)")
            if d or shared != [tuple(e) for e in case["edges"]]:
                o.violate(PROP, "history_dependent", f"{name}: after backend='rust' ran on the same edge list, backend='python' answers "
                          f"differently / the caller's list was changed: {d[1] if d else shared}", route="rust", **key)
        except ERRORS as e:
            o.violate(PROP, f"exception:{type(e).__name__}", f"python after rust on the same list raised {e}", route="rust", **key)
        if case.get("edit") and case["edges"] and not o.violations:
            _second_round(case, shared, o, key)
        o.nontrivial = bool(feats)
    else:
        o.fault("backend_unavailable")
        try:
            r = guarded(call, case, None)
            d = compare(case, py, r, "python", "default-without-extension")
            if d:
                o.violate(PROP, d[0], f"{name}: {d[1]}", route="fallback", **key)
        except ERRORS as e:
            o.violate(PROP, f"exception:{type(e).__name__}", f"default backend without the extension raised {type(e).__name__}: {e}",
                      route="fallback", **key)
        try:
            guarded(call, case, "rust")
            o.violate(PROP, "no_import_error", "backend='rust' without the extension did not raise ImportError", route="fallback", **key)
        except ImportError:
            pass
        except ERRORS as e:
            o.violate(PROP, f"exception:{type(e).__name__}", f"backend='rust' without the extension raised {type(e).__name__}: {e}",
                      route="fallback", **key)
        o.nontrivial = bool(feats)
    o.trace.append([name, world, py.status.name, repr(py.objective), repr(py.solution)[:400]])
    o.steps = 3
    return o


def _second_round(case, shared, o, key):
    """The caller edits one entry of the list every route has already seen (same object, same length) and asks all
    routes again; each must answer for the list as it is now, i.e. like the Python route on a brand-new list."""
    name = case["fn"]
    idx, new = case["edit"]
    idx %= len(case["edges"])
    case2 = copy.deepcopy(case)
    case2["edges"][idx] = list(new)
    shared[idx] = tuple(new)
    answers = []
    for route, be in (("python", "python"), ("rust", "rust"), ("default", None)):
        try:
            answers.append((route, guarded(call, case2, be, shared)))
        except ERRORS as e:
            answers.append((route, e))
    try:
        ref = guarded(call, case2, "python")  # brand-new list object
    except ERRORS as e:
        ref = e
    for route, r in answers:
        if isinstance(ref, BaseException) or isinstance(r, BaseException):
            if type(ref) is not type(r) and not (isinstance(ref, BaseException) and isinstance(r, BaseException)):
                o.violate(PROP, "stale_after_edit", f"{name}: after an in-place edit of entry {idx} to {new}: backend={route} on the edited list "
                          f"gave {r!r}, python on a fresh copy gave {ref!r}", route=route, **key)
            continue
        err = validate(case2, r, route)
        d = compare(case2, ref, r, "python(fresh copy of the edited list)", f"{route}(the edited list itself)")
        if err or d:
            o.violate(PROP, "stale_after_edit", f"{name}: after an in-place edit of entry {idx} to {new}: {err or d[1]}", route=route, **key)
    o.probe("in_place_edit_second_round")


def features(case):
    f = set()
    seen = set()
    for e in case["edges"]:
        u, v = e[0], e[1]
        if u == v:
            f.add("self_loop")
        if (u, v) in seen:
            f.add("duplicate")
        if (v, u) in seen and u != v:
            f.add("anti_parallel")
        seen.add((u, v))
        if len(e) > 2 and e[2] < 0:
            f.add("negative")
    return sorted(f)


def shrink(case):
    yield from shr.list_shrinks(case, ("edges",))
    used = [x for e in case["edges"] for x in e[:2]] + [case.get("start", 0)] + ([case["kw"]["target"]] if case["kw"].get("target") is not None else [])
    hi = max(used) + 1 if used else 1
    if hi < case["n"]:
        yield shr.with_path(case, ("n",), hi)
    for i, e in enumerate(case["edges"]):
        if len(e) > 2 and e[2] not in (0, 1):
            c = copy.deepcopy(case)
            c["edges"][i][2] = 1
            yield c
    if case["kw"].get("target") is not None:
        c = copy.deepcopy(case)
        c["kw"]["target"] = None
        yield c
    if case.get("edit"):
        c = copy.deepcopy(case)
        del c["edit"]
        yield c
