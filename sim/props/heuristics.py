"""C19 - search heuristics return the best point they evaluated, faithfully, reproducibly.

Seams: S1 RNG (faithful / unseeded-with-simulated-entropy / scripted boundary draws), S2 clock (simulated
perf_counter under the shipped default_progress/timed_progress), S3 cancellation at an arbitrary progress tick and
simulator-owned call-back peers (objective, neighbours, destroy, repair, crossover, mutate, accept).
Every objective call is recorded by value; the oracle is evaluated over that history."""

from __future__ import annotations

import copy
import math

import seams
import shrink as shr
from core import Outcome, fnum, solvor_mod

PROP = "C19"
RULE = ("each run = one solver (anneal, tabu_search, lns, alns, evolve, differential_evolution, particle_swarm, nelder_mead, "
        "bayesian_opt, powell, bfgs, lbfgs) on a generated landscape (finite state graph with integer/dyadic objective table, or "
        "piece-wise continuous function of 1-3 variables) under a sampled RNG mode, seed, progress interval, cancel policy "
        "(tick placed inside the uncancelled run / simulated time limit) and clock profile; executed as fault-free baseline + "
        "faulted variant + mirror (max f vs min -f) + repeat; non-trivial: the recorded history has >=4 objective calls and its "
        "best value is not the first call, or a cancel / scripted draw fired; distinct = digest of (solver, objective-call "
        "history, result)")
REAL = ["solvor.anneal", "solvor.tabu.tabu_search", "solvor.lns.lns", "solvor.lns.alns", "solvor.genetic.evolve",
        "solvor.differential_evolution", "solvor.particle_swarm", "solvor.nelder_mead", "solvor.bayesian.bayesian_opt",
        "solvor.powell", "solvor.bfgs.bfgs", "solvor.bfgs.lbfgs", "solvor.utils.helpers.Evaluator/report_progress/"
        "default_progress/timed_progress"]
STUB = ["random.Random (SimRandom, draw-for-draw faithful unless scripted)", "time.perf_counter (SimClock)",
        "user call-backs: objective, neighbours, destroy, repair, crossover, mutate, accept (table-driven peers)"]
ASSUMPTIONS = ["objective functions are deterministic, finite (no NaN/inf)", "getrandbits is never scripted to a large value",
               "only `True` returned by on_progress stops a run"]
TIERS = {
    "quick": {"runs": 40000, "block": 500, "budget_s": 75},
    "thorough": {"runs": 20000000, "block": 4000, "budget_s": 900},
}

RNG_MODULES = ["solvor.anneal", "solvor.tabu", "solvor.lns", "solvor.genetic", "solvor.differential_evolution",
               "solvor.particle_swarm", "solvor.bayesian"]
COMBINATORIAL = ["anneal", "tabu", "lns", "alns", "evolve"]
CONTINUOUS_A = ["de", "pso", "nm", "bayes"]
GROUP_B = ["powell", "bfgs", "lbfgs"]


# ------------------------------------------------------------------------------------------- landscapes


def gen_table(rng, big=False):
    S = rng.randrange(2, 16 if big else 12)
    mode = rng.choice(["ints", "plateau", "dyadic", "cliff", "neg"] * 2 + ["bigint", "tiny", "large_close"])
    vals = []
    for _ in range(S):
        if mode == "bigint":  # exact integer costs beyond 2**53 (packed lexicographic costs, picoseconds)
            vals.append(rng.choice([1, 1, -1]) * (2 ** 60 + rng.randrange(-40, 40)))
        elif mode == "tiny":  # the whole range is far below any "noise" threshold, yet every value is an exact double
            vals.append(rng.randrange(-40, 40) * 2.0 ** -60)
        elif mode == "large_close":  # large offset, small exact differences
            vals.append(2.0 ** 40 + rng.randrange(-40, 40) / 1024.0)
        elif mode == "ints":
            vals.append(rng.randrange(-5, 20))
        elif mode == "plateau":
            vals.append(rng.choice([0, 0, 1, 1, 2, 7]))
        elif mode == "dyadic":
            vals.append(rng.randrange(-40, 40) / 8.0)
        elif mode == "cliff":
            vals.append(rng.choice([-1000, 0, 1, 2, 1000]))
        else:
            vals.append(-rng.randrange(0, 9))
    nbrs = []
    for s in range(S):
        k = rng.randrange(1, min(S, 5) + 1)
        nbrs.append([rng.randrange(S) for _ in range(k)])
    cross = [[rng.randrange(S) for _ in range(S)] for _ in range(S)]
    mut = [rng.randrange(S) for _ in range(S)]
    return {"type": "table", "vals": vals, "nbrs": nbrs, "cross": cross, "mut": mut}


def gen_func(rng, dims=None):
    n = dims or rng.choice([1, 1, 2, 2, 3])
    terms = []
    for _ in range(rng.randrange(1, 5)):
        t = rng.choice(["quad", "quad", "abs", "step", "cliff", "lin", "cross"])
        i = rng.randrange(n)
        a = rng.choice([0.25, 0.5, 1.0, 2.0, 3.0])
        c = rng.randrange(-16, 17) / 4.0
        term = {"t": t, "i": i, "a": a, "c": c}
        if t == "cross":
            term["j"] = rng.randrange(n)
        if t == "step":
            term["k"] = rng.choice([1, 2, 4])
        if t == "cliff":
            term["h"] = rng.choice([-8.0, 8.0, 100.0])
        terms.append(term)
    land = {"type": "func", "n": n, "terms": terms}
    if rng.random() < 0.15:
        land["scale_exp"] = rng.choice([-50, -50, 30])  # exact power-of-two rescaling of the whole landscape
    return land


def func_value(terms, x):
    v = 0.0
    for t in terms:
        xi = x[t["i"]]
        k = t["t"]
        if k == "quad":
            v += t["a"] * (xi - t["c"]) ** 2
        elif k == "abs":
            v += t["a"] * abs(xi - t["c"])
        elif k == "step":
            v += t["a"] * math.floor((xi - t["c"]) * t["k"]) ** 2 / t["k"]
        elif k == "cliff":
            v += t["h"] if xi > t["c"] else 0.0
        elif k == "lin":
            v += t["a"] * xi
        elif k == "cross":
            v += 0.25 * t["a"] * xi * x[t["j"]]
    return v


def func_grad(terms, x):
    g = [0.0] * len(x)
    for t in terms:
        i = t["i"]
        xi = x[i]
        k = t["t"]
        if k == "quad":
            g[i] += 2 * t["a"] * (xi - t["c"])
        elif k == "abs":
            g[i] += t["a"] * (1.0 if xi > t["c"] else -1.0 if xi < t["c"] else 0.0)
        elif k == "lin":
            g[i] += t["a"]
        elif k == "cross":
            g[i] += 0.25 * t["a"] * x[t["j"]]
            g[t["j"]] += 0.25 * t["a"] * xi
    return g


# ------------------------------------------------------------------------------------------- generation


def generate(rng, tier):
    big = tier == "thorough"
    solver = rng.choice(COMBINATORIAL * 3 + CONTINUOUS_A * 2 + GROUP_B)
    case = {"solver": solver, "minimize": rng.random() < 0.5}
    mi_pool = [0, 1, 2, 3, 5, 8, 13, 30, 60] + ([150, 300] if big else [])
    if rng.random() < 0.04:
        mi_pool = [400, 1000, 2500]  # long runs: segment updates, stagnation counters, cooling floors, many restarts of inner loops
    p: dict = {}
    if solver in COMBINATORIAL:
        land = gen_table(rng, big)
        S = len(land["vals"])
        case["land"] = land
        case["start"] = rng.randrange(S)
        case["boxed"] = rng.random() < 0.3
        if solver == "anneal":
            p = {"temperature": rng.choice([0.5, 10.0, 1000.0]), "cooling": rng.choice([0.5, 0.9, 0.9995, "linear", "log", "exp_obj"]),
                 "min_temp": rng.choice([1e-8, 0.1, 5.0]), "max_iter": rng.choice(mi_pool)}
        elif solver == "tabu":
            p = {"cooldown": rng.randrange(1, 6), "max_iter": rng.choice(mi_pool), "max_no_improve": rng.choice([1, 2, 5, 20, 100])}
            case["move_labels"] = rng.choice(["pair", "pair", "pair", "target", "none", "mixed"])  # any hashable is a legal move label
            case["memo_nbrs"] = rng.random() < 0.35  # the neighbourhood function keeps and re-issues its move lists
        elif solver in ("lns", "alns"):
            p = {"accept": rng.choice(["improving", "accept_all", "simulated_annealing", "peer_refuse", "peer_flip", "peer_worse_only"]),
                 "start_temp": rng.choice([0.1, 100.0]), "cooling_rate": rng.choice([0.5, 0.9995]),
                 "max_iter": rng.choice(mi_pool), "max_no_improve": rng.choice([1, 2, 5, 20, 100])}
            if solver == "alns":
                p.update({"n_destroy": rng.randrange(1, 4), "n_repair": rng.randrange(1, 4), "segment_size": rng.choice([1, 2, 5, 100]),
                          "reaction_factor": rng.choice([0.0, 0.1, 1.0])})
                if rng.random() < 0.4:  # caller-supplied operator weights (list objects the caller keeps and reuses)
                    p["destroy_weights"] = [rng.choice([0.5, 1.0, 3.0]) for _ in range(p["n_destroy"])]
                    p["repair_weights"] = [rng.choice([0.5, 1.0, 3.0]) for _ in range(p["n_repair"])]
        elif solver == "evolve":
            p = {"pop": [rng.randrange(S) for _ in range(rng.randrange(1, 9))], "elite_size": rng.randrange(0, 4),
                 "mutation_rate": rng.choice([0.0, 0.1, 0.5, 1.0]), "adaptive_mutation": rng.random() < 0.4,
                 "max_iter": rng.choice([0, 1, 2, 3, 5, 8, 13, 30]), "tournament_k": rng.randrange(1, 5)}
    else:
        land = gen_func(rng)
        n = land["n"]
        case["land"] = land
        bounds = []
        for _ in range(n):
            lo = rng.randrange(-20, 8) / 2.0
            bounds.append([lo, lo + rng.choice([0.5, 1.0, 4.0, 10.0])])
        if rng.random() < 0.1:
            bounds[0][1] = bounds[0][0]  # degenerate (lo == hi) bound
        x0 = [rng.randrange(-12, 13) / 4.0 for _ in range(n)]
        if solver == "de":
            p = {"bounds": bounds, "population_size": rng.randrange(2, 9), "mutation": rng.choice([0.5, 0.8, 1.5]),
                 "crossover": rng.choice([0.0, 0.7, 1.0]), "strategy": rng.choice(["rand/1", "best/1", "rand/2", "best/2"]),
                 "max_iter": rng.choice([0, 1, 2, 3, 5, 8, 20]), "tol": rng.choice([1e-8, 0.0, 1e-2])}
            if rng.random() < 0.4:
                p["initial_population"] = [[rng.randrange(-30, 31) / 2.0 for _ in range(n)] for _ in range(rng.randrange(1, 7))]
        elif solver == "pso":
            p = {"bounds": bounds, "n_particles": rng.randrange(1, 9), "max_iter": rng.choice([0, 1, 2, 3, 5, 8, 20]),
                 "inertia": rng.choice([0.4, 0.7, 1.0]), "inertia_decay": rng.choice([None, None, 0.2]),
                 "cognitive": rng.choice([0.0, 1.5]), "social": rng.choice([0.0, 1.5]), "v_max": rng.choice([None, None, 0.1, 100.0])}
            if rng.random() < 0.4:
                p["initial_positions"] = [[rng.randrange(-30, 31) / 2.0 for _ in range(n)] for _ in range(rng.randrange(1, 7))]
        elif solver == "nm":
            p = {"x0": x0, "max_iter": rng.choice([0, 1, 2, 3, 5, 8, 20, 60]), "tol": rng.choice([1e-6, 0.0, 0.5]),
                 "adaptive": rng.random() < 0.3, "initial_step": rng.choice([0.05, 1.0, 4.0])}
        elif solver == "bayes":
            p = {"bounds": [b for b in bounds], "max_iter": rng.randrange(1, 10), "n_initial": rng.randrange(1, 5),
                 "acquisition": rng.choice(["ei", "ucb"]), "kappa": rng.choice([0.5, 2.0]), "acq_restarts": rng.randrange(1, 3)}
        elif solver == "powell":
            p = {"x0": x0, "bounds": rng.choice([None, bounds]), "max_iter": rng.choice([0, 1, 2, 5]), "tol": rng.choice([1e-6, 1e-2])}
        else:
            p = {"x0": x0, "max_iter": rng.choice([0, 1, 2, 5, 12]), "tol": rng.choice([1e-6, 1e-2])}
            if solver == "lbfgs":
                p["m"] = rng.randrange(1, 4)
    case["params"] = p
    case["seq_as"] = rng.choice(["list", "list", "tuple"])
    case["falsy_objective"] = rng.random() < 0.04
    case["seed"] = rng.choice([None, None, 0, 1, 7, 123456789, 2**31])
    case["rng"] = seams.gen_rng_case(rng, p_script=0.3, horizon=200)
    case["interval"] = rng.choice([0, 1, 1, 1, 2, 3, 7])
    x = rng.random()
    if x < 0.4 or case["interval"] == 0:
        case["cancel"] = {"kind": "never"}
    elif x < 0.8:
        case["cancel"] = {"kind": "tick", "mode": rng.choice(["first", "last", "frac", "frac", "after_best", "after_best"]),
                          "frac": rng.random()}
    else:
        case["cancel"] = {"kind": rng.choice(["time_limit", "timed"]), "frac": rng.random()}
    case["clock"] = seams.gen_clock_case(rng, horizon=100)
    if case["cancel"]["kind"] in ("time_limit", "timed") and case["clock"]["per_eval"] == 0.0:
        case["clock"]["per_eval"] = 0.01
    return case


# ------------------------------------------------------------------------------------------- one solver run


class Run:
    """Everything observed in one call of a solver."""

    def __init__(self):
        self.history: list = []  # (arg by value, user-sign value)
        self.result = None
        self.exc = None
        self.ticks = 0
        self.cancelled_at = None
        self.prog_log: list = []
        self.sim_elapsed = 0.0
        self.draws = 0
        self.fired = 0
        self.unseeded = 0
        self.clock_stalls = 0
        self.clock_jumps = 0
        self.peer_refused_improving = 0


def byval(x):
    if isinstance(x, (list, tuple)):
        return tuple(byval(v) for v in x)
    return x


def run_solver(case, policy, negate=False, minimize=None, entropy_salt=0):
    """Execute the solver once.  negate: objective is -f (mirror run)."""
    solver = case["solver"]
    p = case["params"]
    land = case["land"]
    minimize = case["minimize"] if minimize is None else minimize
    run = Run()
    clock = seams.SimClock(case.get("clock"))
    prog = seams.Progressor(policy, clock)
    plan = seams.make_rng_plan(case.get("rng"))
    plan.entropy ^= entropy_salt  # what the OS would hand to an un-seeded generator differs from run to run
    sg = -1.0 if negate else 1.0

    boxed = bool(case.get("boxed")) and land["type"] == "table"
    box = (lambda s: (s,)) if boxed else (lambda s: s)      # fresh, equal-but-not-identical state objects
    unbox = (lambda s: s[0]) if boxed else (lambda s: s)
    if land["type"] == "table":
        vals = land["vals"]

        def f(s):
            v = vals[unbox(s)]
            if negate:
                v = -v
            run.history.append((s, v))
            clock.on_eval()
            return v
    else:
        terms = land["terms"]

        scale = 2.0 ** land.get("scale_exp", 0)

        def f(x):
            xv = byval(x)
            v = func_value(terms, xv) * scale
            if negate:
                v = -v
            run.history.append((xv, v))
            clock.on_eval()
            return v

        def grad(x):
            g = func_grad(terms, x)
            return [sg * gi * scale for gi in g]

    if case.get("falsy_objective"):
        # the objective is a callable OBJECT whose truth value is False (a loss over a container that reports length 0, a
        # ctypes / numpy-style wrapper): "was an objective given?" must be asked with `is not None`, not with truthiness
        inner = f

        class _Loss:
            def __call__(self, x):
                return inner(x)

            def __len__(self):
                return 0

        f = _Loss()

    kw = {"minimize": minimize, "on_progress": prog if case["interval"] else None, "progress_interval": case["interval"]}
    seed = case["seed"]

    def accept_peer(kind):
        cnt = [0]

        def accept(cur, new, it, rng):
            cnt[0] += 1
            if kind == "peer_refuse":  # refuses every 2nd improving candidate
                if new < cur:
                    if cnt[0] % 2 == 0:
                        run.peer_refused_improving += 1
                        return False
                    return True
                return False
            if kind == "peer_flip":  # accepts on odd calls only, whatever the values
                if cnt[0] % 2 == 1:
                    return True
                if new < cur:
                    run.peer_refused_improving += 1
                return False
            if kind == "peer_worse_only":  # accepts only non-improving candidates
                if new < cur:
                    run.peer_refused_improving += 1
                    return False
                return True
            raise ValueError(kind)

        return accept

    try:
        with seams.install_rng(RNG_MODULES, plan), seams.install_clock(clock):
            if solver == "anneal":
                nb = land["nbrs"]
                cnt = [0]

                def neighbors(s):
                    cnt[0] += 1
                    s = unbox(s)
                    return box(nb[s][cnt[0] % len(nb[s])])

                cooling = p["cooling"]
                m = solvor_mod("anneal")
                if isinstance(cooling, str):
                    # one schedule object per case, reused by every run of the case (a caller keeps its schedule around)
                    if "_cooling_obj" not in case:
                        case["_cooling_obj"] = {"linear": lambda: m.linear_cooling(1e-3), "log": lambda: m.logarithmic_cooling(1.0),
                                                "exp_obj": lambda: m.exponential_cooling(0.9)}[cooling]()
                    cooling = case["_cooling_obj"]
                run.result = m.anneal(box(case["start"]), f, neighbors, temperature=p["temperature"], cooling=cooling,
                                      min_temp=p["min_temp"], max_iter=p["max_iter"], seed=seed, **kw)
            elif solver == "tabu":
                nb = land["nbrs"]

                def neighbors_t(s):
                    s = unbox(s)
                    ml = case.get("move_labels", "pair")
                    lab = {"pair": lambda t: (s, t), "target": lambda t: t, "none": lambda t: None,
                           "mixed": lambda t: None if t % 2 == 0 else (s, t)}[ml]
                    if case.get("memo_nbrs"):
                        # a neighbourhood function that keeps its move lists (memoised per state) and hands out the same list
                        # object every time, across the runs of the case: the solver must not reorder or edit it
                        memo = case.setdefault("_nbr_memo", {})
                        if s not in memo:
                            memo[s] = [(lab(t), box(t)) for t in nb[s]]
                        return memo[s]
                    return [(lab(t), box(t)) for t in nb[s]]

                run.result = solvor_mod("tabu").tabu_search(box(case["start"]), f, neighbors_t, cooldown=p["cooldown"],
                                                           max_iter=p["max_iter"], max_no_improve=p["max_no_improve"], seed=seed, **kw)
            elif solver in ("lns", "alns"):
                nb = land["nbrs"]

                def mk_destroy(off):
                    def destroy(s, rng):
                        s = unbox(s)
                        return ("partial", s, rng.randrange(len(nb[s])) + off)
                    return destroy

                def mk_repair(off):
                    def repair(partial, rng):
                        _, s, k = partial
                        if rng.random() < 0.25:
                            k += 1
                        return box(nb[s][(k + off) % len(nb[s])])
                    return repair

                acc = p["accept"]
                acc_fn = accept_peer(acc) if acc.startswith("peer_") else acc
                m = solvor_mod("lns")
                if solver == "lns":
                    run.result = m.lns(box(case["start"]), f, mk_destroy(0), mk_repair(0), accept=acc_fn, start_temp=p["start_temp"],
                                       cooling_rate=p["cooling_rate"], max_iter=p["max_iter"], max_no_improve=p["max_no_improve"],
                                       seed=seed, **kw)
                else:
                    run.result = m.alns(box(case["start"]), f, [mk_destroy(i) for i in range(p["n_destroy"])],
                                        [mk_repair(i) for i in range(p["n_repair"])], accept=acc_fn, start_temp=p["start_temp"],
                                        cooling_rate=p["cooling_rate"], segment_size=p["segment_size"],
                                        reaction_factor=p["reaction_factor"], destroy_weights=p.get("destroy_weights"),
                                        repair_weights=p.get("repair_weights"), max_iter=p["max_iter"],
                                        max_no_improve=p["max_no_improve"], seed=seed, **kw)
            elif solver == "evolve":
                cross, mut = land["cross"], land["mut"]
                if "_pop_obj" not in case:
                    case["_pop_obj"] = [box(x) for x in p["pop"]] if case.get("seq_as") != "tuple" else tuple(box(x) for x in p["pop"])  # one population list, reused by every run of this case
                run.result = solvor_mod("genetic").evolve(f, case["_pop_obj"], lambda a, b: box(cross[unbox(a)][unbox(b)]),
                                                         lambda a: box(mut[unbox(a)]),
                                                         elite_size=p["elite_size"], mutation_rate=p["mutation_rate"],
                                                         adaptive_mutation=p["adaptive_mutation"], max_iter=p["max_iter"],
                                                         tournament_k=p["tournament_k"], seed=seed, **kw)
            elif solver == "de":
                bounds = [tuple(b) for b in p["bounds"]]
                run.result = solvor_mod("differential_evolution").differential_evolution(
                    f, bounds, population_size=p["population_size"], mutation=p["mutation"], crossover=p["crossover"],
                    strategy=p["strategy"], max_iter=p["max_iter"], tol=p["tol"], seed=seed,
                    initial_population=p.get("initial_population"), **kw)
            elif solver == "pso":
                bounds = [tuple(b) for b in p["bounds"]]
                run.result = solvor_mod("particle_swarm").particle_swarm(
                    f, bounds, n_particles=p["n_particles"], max_iter=p["max_iter"], inertia=p["inertia"],
                    inertia_decay=p["inertia_decay"], cognitive=p["cognitive"], social=p["social"], v_max=p["v_max"], seed=seed,
                    initial_positions=p.get("initial_positions"), **kw)
            elif solver == "nm":
                run.result = solvor_mod("nelder_mead").nelder_mead(f, p["x0"], max_iter=p["max_iter"], tol=p["tol"],
                                                                  adaptive=p["adaptive"], initial_step=p["initial_step"], **kw)
            elif solver == "bayes":
                bounds = [tuple(b) for b in p["bounds"]]
                run.result = solvor_mod("bayesian").bayesian_opt(f, bounds, max_iter=p["max_iter"], n_initial=p["n_initial"],
                                                                acquisition=p["acquisition"], kappa=p["kappa"],
                                                                acq_restarts=p["acq_restarts"], seed=seed, **kw)
            elif solver == "powell":
                b = [tuple(x) for x in p["bounds"]] if p["bounds"] else None
                run.result = solvor_mod("powell").powell(f, p["x0"], bounds=b, max_iter=p["max_iter"], tol=p["tol"], **kw)
            elif solver == "bfgs":
                run.result = solvor_mod("bfgs").bfgs(grad, p["x0"], objective_fn=f, max_iter=p["max_iter"], tol=p["tol"], **kw)
            elif solver == "lbfgs":
                run.result = solvor_mod("bfgs").lbfgs(grad, p["x0"], objective_fn=f, m=p["m"], max_iter=p["max_iter"],
                                                     tol=p["tol"], **kw)
            else:
                raise ValueError(solver)
    except (UnboundLocalError, IndexError, KeyError, TypeError, ValueError, ZeroDivisionError, OverflowError, AttributeError,
            RecursionError, AssertionError, NameError) as e:
        run.exc = e
    run.ticks = prog.ticks
    run.cancelled_at = prog.cancelled_at
    run.prog_log = prog.log
    run.sim_elapsed = clock.elapsed
    run.draws, run.fired, run.unseeded = plan.draws, plan.fired, plan.unseeded_used
    run.clock_stalls, run.clock_jumps = clock.stalls, clock.jumps
    return run


def true_value(case, sol, negate=False):
    land = case["land"]
    if land["type"] == "table":
        if case.get("boxed"):
            if not (isinstance(sol, tuple) and len(sol) == 1):
                return None
            sol = sol[0]
        if not isinstance(sol, int) or isinstance(sol, bool) or not (0 <= sol < len(land["vals"])):
            return None
        v = land["vals"][sol]
    else:
        try:
            xs = [float(v) for v in sol]
        except Exception:
            return None
        if len(xs) != land["n"]:
            return None
        v = func_value(land["terms"], byval(sol)) * 2.0 ** land.get("scale_exp", 0)
    return -v if negate else v


def summary(run):
    r = run.result
    if r is None:
        return ("exc", type(run.exc).__name__)
    return (repr(byval(r.solution)), repr(r.objective), r.iterations, r.evaluations, r.status.name)


def judge(o: Outcome, case, run, label, minimize, negate=False, faulted=False):
    solver = case["solver"]
    fam = "max_iter0" if case["params"].get("max_iter") == 0 else "std"
    key = dict(target=solver, family=fam)
    if run.exc is not None:
        o.violate(PROP, f"exception:{type(run.exc).__name__}", f"{label}: {solver} raised {type(run.exc).__name__}: {run.exc}", **key)
        return
    r = run.result
    tv = true_value(case, r.solution, negate)
    if tv is None:
        o.violate(PROP, "bad_solution", f"{label}: returned solution {r.solution!r} is not a point of the search space", **key)
        return
    # (a) objective faithful, in the user's sign
    if not (isinstance(r.objective, (int, float)) and r.objective == tv):
        o.violate(PROP, "objective_mismatch", f"{label}: reported objective {r.objective!r} but f(solution)={tv!r} at {r.solution!r}", **key)
    if solver == "powell" and case["params"].get("bounds"):
        # (e) for the one group-B solver that takes bounds: "bounded solvers return points inside their bounds"
        for xi, (lo, hi) in zip(r.solution, case["params"]["bounds"]):
            if not (lo <= xi <= hi):
                o.violate(PROP, "out_of_bounds", f"{label}: solution {r.solution!r} outside bounds {case['params']['bounds']!r}", **key)
                break
    if solver in GROUP_B:
        return
    # (b) at least as good as every evaluated point
    if run.history:
        hv = [v for _, v in run.history]
        best = min(hv) if minimize else max(hv)
        worse = r.objective > best if minimize else r.objective < best
        if worse:
            idx = hv.index(best)
            o.violate(PROP, "not_best_evaluated", f"{label}: returned objective {r.objective!r} but call #{idx} evaluated "
                      f"{run.history[idx][0]!r} -> {best!r} ({'cancelled at tick %s' % run.cancelled_at if run.cancelled_at else 'not cancelled'})",
                      cancelled=bool(run.cancelled_at), **key)
    # (b') at least as good as every starting point the caller supplied (clipped into the bounds, as the solvers document)
    starts = case["params"].get("initial_population") or case["params"].get("initial_positions")
    if solver in ("de", "pso") and starts:
        for x in starts:
            cx = [max(lo, min(hi, xi)) for xi, (lo, hi) in zip(x, case["params"]["bounds"])]
            sv = true_value(case, cx, negate)
            if sv is not None and (r.objective > sv if minimize else r.objective < sv):
                o.violate(PROP, "worse_than_start", f"{label}: returned objective {r.objective!r} but the supplied starting point {x!r} "
                          f"(clipped {cx!r}) has objective {sv!r}; {len(starts)} starting points for a population of "
                          f"{case['params'].get('population_size', case['params'].get('n_particles'))}", **key)
                break
    # (c) evaluations = number of objective calls
    if r.evaluations != len(run.history):
        o.violate(PROP, "evals_mismatch", f"{label}: evaluations={r.evaluations} but {len(run.history)} objective calls recorded", **key)
    # (e) bounds
    if solver in ("de", "pso", "bayes"):
        for xi, (lo, hi) in zip(r.solution, case["params"]["bounds"]):
            if not (lo <= xi <= hi):
                o.violate(PROP, "out_of_bounds", f"{label}: solution {r.solution!r} outside bounds {case['params']['bounds']!r}", **key)
                break


def resolve_policy(case, base: Run):
    """Place the fault inside the uncancelled run."""
    c = case["cancel"]
    if c["kind"] == "never":
        return {"kind": "never"}
    if c["kind"] == "tick":
        T = base.ticks
        if T == 0:
            return None
        mode = c["mode"]
        if mode == "first":
            k = 1
        elif mode == "last":
            k = T
        elif mode == "frac":
            k = 1 + int(c["frac"] * T)
        else:  # right after a tick on which the best value changed
            log = base.prog_log
            ch = []
            prev = None
            for i, (_, obj, best, _) in enumerate(log):
                b = obj if best is None else best
                if prev is not None and b != prev:
                    ch.append(i + 1)
                prev = b
            if not ch:
                k = 1 + int(c["frac"] * T)
            else:
                k = ch[int(c["frac"] * len(ch))]
        return {"kind": "tick", "k": min(k, T)}
    # time-based: limit inside the simulated duration of the uncancelled run
    if base.ticks == 0 or base.sim_elapsed <= 0:
        return None
    return {"kind": c["kind"], "limit": c["frac"] * base.sim_elapsed, "interval": 3}


def execute(case) -> Outcome:
    # the runs of one case share its input objects (x0, populations), as a caller repeating a call would;
    # work on a private copy so that the recorded case stays pristine
    case = copy.deepcopy(case)
    if case.get("seq_as") == "tuple":  # the signatures take Sequences: tuples are as legal as lists
        for k in ("x0", "pop"):
            if isinstance(case["params"].get(k), list):
                case["params"][k] = tuple(case["params"][k])
        for k in ("initial_population", "initial_positions"):
            if case["params"].get(k):
                case["params"][k] = tuple(tuple(x) for x in case["params"][k])
    o = Outcome()
    solver = case["solver"]
    minimize = case["minimize"]
    o.trace.append(solver)

    base = run_solver(case, {"kind": "never"})
    judge(o, case, base, "baseline", minimize)
    o.trace.append(["base", [fnum(v) for _, v in base.history], summary(base)])
    o.steps += len(base.history)
    o.sim_time += base.sim_elapsed
    if base.fired:
        o.fault("rng_boundary", base.fired)
    if base.unseeded:
        o.fault("rng_unseeded")
    if base.clock_stalls:
        o.fault("clock_stall", base.clock_stalls)
    if base.clock_jumps:
        o.fault("clock_jump", base.clock_jumps)
    if base.peer_refused_improving:
        o.fault("peer_unusual", base.peer_refused_improving)
    if base.exc is None and case["params"].get("max_iter") is not None:
        pass
    main = base
    policy = resolve_policy(case, base) if base.exc is None else None
    if policy and policy["kind"] != "never":
        faulted = run_solver(case, policy)
        judge(o, case, faulted, f"cancel({policy})", minimize, faulted=True)
        o.trace.append(["faulted", [fnum(v) for _, v in faulted.history], summary(faulted)])
        o.steps += len(faulted.history)
        o.sim_time += faulted.sim_elapsed
        if faulted.cancelled_at:
            o.fault("cancel@tick" if policy["kind"] == "tick" else "cancel@time_limit")
            # a cancelled run is a prefix of the uncancelled one
            if faulted.exc is None and base.exc is None:
                hb, hf = base.history, faulted.history
                if hf != hb[: len(hf)]:
                    o.probe("cancel_changed_history")
        main = faulted
    else:
        policy = {"kind": "never"}

    # (f) reproducibility: same case again, same simulated entropy
    # (with a fixed seed the entropy an un-seeded generator would get is different the second time, as it is in production:
    # a solver that drops the caller's seed on some path - seed=0 read as "no seed" - only replays when it never draws)
    again = run_solver(case, policy, entropy_salt=0x5BD1E995 if case.get("seed") is not None else 0)
    if summary(again) != summary(main) or again.history != main.history:
        o.violate(PROP, "irreproducible", f"{solver}: two executions of the same case differ: {summary(main)} vs {summary(again)}",
                  target=solver, family="std")
    # (d) mirror: max f  vs  min -f  (group A only)
    if solver not in GROUP_B and main.exc is None:
        mir = run_solver(case, policy, negate=True, minimize=not minimize)
        if mir.exc is not None:
            o.violate(PROP, "mirror_mismatch", f"{solver}: mirror run raised {type(mir.exc).__name__}: {mir.exc}", target=solver, family="std")
        else:
            a, b = main.result, mir.result
            same_hist = [x for x, _ in main.history] == [x for x, _ in mir.history]
            if byval(a.solution) != byval(b.solution) or a.objective != -b.objective or not same_hist or a.evaluations != b.evaluations:
                o.violate(PROP, "mirror_mismatch", f"{solver}: minimize={minimize} on f gives {summary(main)}; minimize={not minimize} on -f "
                          f"gives {summary(mir)}; same call history: {same_hist}", target=solver, family="std")

    hv = [v for _, v in main.history]
    if len(hv) >= 4:
        best = min(hv) if minimize else max(hv)
        if hv[0] != best:
            o.nontrivial = True
    if main.cancelled_at or main.fired:
        o.nontrivial = True
    if main.cancelled_at and main.prog_log:
        o.probe("cancelled_runs")
    if base.ticks:
        o.probe("runs_with_ticks")
    return o


# ------------------------------------------------------------------------------------------- shrinking


def shrink(case):
    p = case["params"]
    if case["cancel"]["kind"] != "never":
        yield shr.with_path(case, ("cancel",), {"kind": "never"})
        if case["cancel"]["kind"] == "tick" and case["cancel"].get("mode") != "first":
            c = copy.deepcopy(case)
            c["cancel"] = {"kind": "tick", "mode": "first", "frac": 0.0}
            yield c
    if case["rng"].get("script_r") or case["rng"].get("script_b"):
        c = copy.deepcopy(case)
        c["rng"]["script_r"], c["rng"]["script_b"] = {}, []
        yield c
        for k in list(case["rng"].get("script_r", {})):
            c = copy.deepcopy(case)
            del c["rng"]["script_r"][k]
            yield c
    if case["clock"].get("events"):
        yield shr.with_path(case, ("clock", "events"), {})
    if case["seed"] not in (0, None):
        yield shr.with_path(case, ("seed",), 0)
    if case.get("boxed"):
        yield shr.with_path(case, ("boxed",), False)
    if case["interval"] > 1:
        yield shr.with_path(case, ("interval",), 1)
    for name in ("max_iter", "max_no_improve", "population_size", "n_particles", "n_initial", "acq_restarts", "n_destroy", "n_repair",
                 "elite_size", "tournament_k", "cooldown"):
        if isinstance(p.get(name), int):
            lo = 1 if name in ("population_size", "n_particles", "n_initial", "acq_restarts", "n_destroy", "n_repair", "tournament_k",
                               "cooldown", "max_no_improve") else 0
            for v in shr.shrink_int(p[name], lo):
                if name == "max_iter" and v == 0:
                    continue  # do not drift into the max_iter=0 family
                yield shr.with_path(case, ("params", name), v)
    for name in ("initial_population", "initial_positions"):
        if p.get(name):
            yield shr.with_path(case, ("params", name), None)
    if p.get("pop") and len(p["pop"]) > 1:
        yield from shr.list_shrinks(case, ("params", "pop"), 1)
    land = case["land"]
    if land["type"] == "func":
        if len(land["terms"]) > 1:
            yield from shr.list_shrinks(case, ("land", "terms"), 1)
    else:
        S = len(land["vals"])
        # drop the last state if nothing refers to it
        last = S - 1
        refs = [case.get("start")] + [t for row in land["nbrs"][:last] for t in row] + list(p.get("pop", []))
        if S > 2 and last not in refs:
            c = copy.deepcopy(case)
            L = c["land"]
            L["vals"].pop()
            L["nbrs"].pop()
            L["mut"].pop()
            L["cross"].pop()
            L["cross"] = [[min(t, last - 1) for t in row[:last]] for row in L["cross"]]
            L["mut"] = [min(t, last - 1) for t in L["mut"]]
            yield c
        for s in range(S):
            if len(land["nbrs"][s]) > 1:
                for cand in shr.drop_chunks(land["nbrs"][s], 1):
                    yield shr.with_path(case, ("land", "nbrs", s), cand)
                    break
        for s in range(S):
            if land["vals"][s] not in (0, 1, 2):
                for v in (0, 1, 2):
                    yield shr.with_path(case, ("land", "vals", s), v)
