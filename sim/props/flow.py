"""C09 - min-cost flow solvers return feasible flows of minimum cost and agree; every call terminates.

Seam S5: min_cost_flow iterates `nodes = set()` of caller labels in both loops of its Bellman-Ford, so with string
labels (always, inside solve_assignment) the relaxation order, the augmenting paths and the returned flow depend on
the per-process hash seed.  A check run is a set of fresh interpreters with explicit PYTHONHASHSEEDs, and labels are
random strings per run.  Termination is judged by a deterministic step budget.  The rest of the statement is decided
by the same runs against a reference successive-shortest-path optimum (differential part, see DESIGN 3)."""

from __future__ import annotations

import copy
import itertools

import budget
import shrink as shr
from core import Outcome, solvor_mod
from oracles import flowref

PROP = "C09"
RULE = ("each run = one network (<=6 nodes, <=10 arcs, caps 0-4, costs -3..6 without negative cycles, parallel/anti-parallel arcs, "
        "zero capacities) posed to min_cost_flow under two different random string labellings (hash-order schedules) and to "
        "network_simplex as a supply vector, or a multi-supply vector for network_simplex alone, or a cost matrix (<=5x5, "
        "rectangular, integer/dyadic) for solve_assignment; executed in worker interpreters with different PYTHONHASHSEEDs; "
        "non-trivial: >=2 augmentations or >=2 simplex iterations; distinct = digest of (instance, answers)")
REAL = ["solvor.flow.min_cost_flow", "solvor.flow.solve_assignment", "solvor.network_simplex.network_simplex"]
STUB = []
ASSUMPTIONS = ["source and sink occur in the graph", "no negative-cost cycle of positive capacity", "reference SSP (cross-checked by brute force at start-up)"]
TIERS = {
    "quick": {"runs": 192000, "block": 4000, "budget_s": 75, "hash_seeds": 16},
    "thorough": {"runs": 40000000, "block": 8000, "budget_s": 900, "hash_seeds": 64},
}
SOLVER_ERRORS = (UnboundLocalError, IndexError, KeyError, TypeError, ValueError, ZeroDivisionError, OverflowError, AttributeError,
                 RecursionError, AssertionError, NameError)
STEP_LIMIT = 1_500_000
_selftested = False
ALPHABET = "abcdefghijklmnopqrstuvwxyzABCDEFGHIJKLMNOPQRSTUVWXYZ0123456789"


def gen_labels(rng, n):
    kind = rng.random()
    if n > 16:
        kind = max(kind, 0.15)
    if kind < 0.15:  # (row, col) style labels, stored as lists in the JSON case and turned into tuples at execution
        return [list(t) for t in rng.sample([(a, b) for a in range(4) for b in range(4)], n)]
    if kind < 0.3:
        return rng.sample(range(1000, 9000), n)
    out = set()
    while len(out) < n:
        out.add("".join(rng.choice(ALPHABET) for _ in range(rng.randrange(1, 7))))
    out = sorted(out)
    rng.shuffle(out)
    return out


def gen_arcs(rng, n, simple):
    arcs = []
    m = rng.randrange(1, 11 if n <= 6 else (19 if n <= 9 else 40))
    neg = rng.random() < 0.3
    ties = rng.random() < 0.5  # few distinct costs: many equal-cost augmenting paths, so relaxation order matters
    for _ in range(m):
        x = rng.random()
        if arcs and not simple and x < 0.15:
            u, v = arcs[rng.randrange(len(arcs))][:2]
        elif arcs and not simple and x < 0.3:
            v, u = arcs[rng.randrange(len(arcs))][:2]
        else:
            u, v = rng.sample(range(n), 2) if n > 1 else (0, 0)
        if u == v:
            continue
        if simple and any((a[0], a[1]) in ((u, v), (v, u)) for a in arcs):
            continue
        cost = rng.choice([0, 1, 1]) if ties else rng.randrange(-3 if neg else 0, 7)
        arcs.append([u, v, rng.choice([0, 1, 1, 2, 3, 4]), cost])
    if arcs and rng.random() < 0.06:
        # every cost is huge and the differences are small: integer costs have no magnitude limit, so potentials and
        # reduced costs must be exact integers, not doubles
        base = rng.choice([2 ** 54, 10 ** 15, 10 ** 17, 10 ** 30])
        for a in arcs:
            a[3] = base + rng.randrange(0, 10)
        return arcs
    if arcs and rng.random() < 0.15:
        # one very expensive "penalty" arc (still an integer cost) next to ordinary costs of either sign:
        # tolerances must not scale with the largest cost
        for a in arcs:
            a[3] = rng.randrange(-10, 21)
        arcs[rng.randrange(len(arcs))][3] = rng.choice([10**9, 10**9, 10**10])
    return arcs


def gen_layered_unit(rng):
    """Unit capacities, several layers between s and t, lanes that cross between parallel routes, demand 2-3:
    the first (shortest) augmenting path may block both routes, so a later augmentation has to cancel flow."""
    layers = [[0]]
    nxt = 1
    for _ in range(rng.randrange(2, 5)):
        w = rng.randrange(2, 4)
        layers.append(list(range(nxt, nxt + w)))
        nxt += w
    layers.append([nxt])
    n = nxt + 1
    arcs = []
    for a, b in zip(layers, layers[1:]):
        for u in a:
            for v in b:
                if rng.random() < 0.55 or len(a) == 1 or len(b) == 1:
                    arcs.append([u, v, 1, rng.choice([0, 1, 1, 2, 5])])
    for i in range(len(layers) - 2):  # lanes that skip a layer or stay inside one
        for _ in range(rng.randrange(0, 3)):
            u = rng.choice(layers[i] + layers[i + 1])
            v = rng.choice(layers[i + 1] + layers[i + 2])
            if u < v:
                arcs.append([u, v, 1, rng.choice([0, 1, 3])])
    rng.shuffle(arcs)
    return {"kind": "st", "n": n, "arcs": arcs, "s": 0, "t": n - 1, "demand": rng.choice([1, 2, 2, 3, 3, 4]),
            "labels": [gen_labels(rng, n), gen_labels(rng, n)], "ints_too": rng.random() < 0.5, "fresh": rng.random() < 0.5}


def gen_pipeline_dag(rng):
    """Acyclic pipeline with rebates (negative costs, no cycle at all): optional stages, each earning a rebate, every stage
    may ship to a hub, the hub fans out over warehouses with their own rebates to a market.  Labels improve again and again
    during one shortest-path computation, which is legal and must neither fail nor be cut short."""
    stages, wh = rng.randrange(2, 15), rng.randrange(1, 13)
    cap = rng.choice([1, 2, 50])
    hub = stages + 1
    market = hub + wh + 1
    n = market + 2
    arcs = [[0, hub, cap, 0], [0, 1, cap, 0]]
    for st in range(1, stages + 1):
        arcs.append([st, hub, cap, rng.choice([0, 0, 1])])
        if st < stages:
            arcs.append([st, st + 1, cap, -rng.choice([1, 10, 10])])
    for k in range(wh):
        arcs.append([hub, hub + 1 + k, cap, 0])
        arcs.append([hub + 1 + k, market, cap, -k if rng.random() < 0.8 else rng.randrange(0, 5)])
    arcs.append([market, market + 1, cap * 2, 0])
    for _ in range(rng.randrange(0, 4)):  # a few extra forward lanes
        u = rng.randrange(0, n - 1)
        arcs.append([u, rng.randrange(u + 1, n), rng.choice([1, 3]), rng.randrange(-2, 6)])
    return {"kind": "st", "n": n, "arcs": arcs, "s": 0, "t": n - 1, "demand": rng.choice([1, 2, 2, 3]),
            "labels": [gen_labels(rng, n), gen_labels(rng, n)], "ints_too": True, "fresh": rng.random() < 0.5}


def gen_transshipment(rng):
    """Dozens of nodes, 55-130 lanes, several plants and customers, costs from node potentials (so negative lanes but no
    negative cycle), the lanes listed in a meaningful order (by kind, by cost, shuffled): network_simplex alone."""
    n = rng.randrange(12, 26)
    pot = [rng.randrange(0, 12) for _ in range(n)]
    k_s, k_d = rng.randrange(1, 4), rng.randrange(1, 4)
    nodes = list(range(n))
    rng.shuffle(nodes)
    plants, customers = nodes[:k_s], nodes[k_s:k_s + k_d]
    sup = [0] * n
    for _ in range(rng.randrange(1, 6)):
        a, b = rng.choice(plants), rng.choice(customers)
        d = rng.randrange(1, 4)
        sup[a] += d
        sup[b] -= d
    arcs = []
    for _ in range(rng.randrange(55, 131)):
        u, v = rng.sample(range(n), 2)
        red = rng.choice([0, 0, 1, 2, 5])  # reduced cost >= 0 with respect to the potentials: no negative cycle
        arcs.append([u, v, rng.choice([0, 1, 2, 3, 6]), pot[v] - pot[u] + red])
    order = rng.choice(["shuffled", "same_kind_first", "by_cost", "plants_last"])
    kind = lambda x: 0 if x in plants else (1 if x in customers else 2)  # noqa: E731
    if order == "same_kind_first":
        arcs.sort(key=lambda a: (kind(a[0]) != kind(a[1]) or kind(a[0]) == 2, a[3]))
    elif order == "by_cost":
        arcs.sort(key=lambda a: a[3])
    elif order == "plants_last":
        arcs.sort(key=lambda a: (kind(a[0]) == 0 or kind(a[1]) == 1))
    return {"kind": "ns", "n": n, "arcs": arcs, "supplies": sup}


def generate(rng, tier):
    x = rng.random()
    y = rng.random()
    if y < 0.05:
        return gen_layered_unit(rng)
    if y < 0.06:
        return gen_pipeline_dag(rng)
    if y < 0.066:
        return gen_transshipment(rng)
    if x < 0.25:
        n, m = rng.randrange(0, 6), rng.randrange(1, 6)
        dy = rng.random() < 0.3
        mat = [[(rng.randrange(-8, 40) / 4.0 if dy else rng.randrange(-3, 12)) for _ in range(m)] for _ in range(n)]
        return {"kind": "assign", "matrix": mat, "seq_as": rng.choice(["list", "tuple"])}
    n = rng.randrange(2, 7 if tier == "quick" else 10)
    if rng.random() < 0.04:
        n = rng.randrange(8, 15)  # longer augmenting paths, deeper spanning trees
    simple = rng.random() < 0.5
    for _ in range(50):
        arcs = gen_arcs(rng, n, simple)
        if arcs and not flowref.has_negative_cycle(n, [tuple(a) for a in arcs]):
            break
    else:
        arcs = [[0, 1, 1, 1]]
    if x < 0.45:
        # balanced multi-supply vector for network_simplex alone
        sup = [0] * n
        for _ in range(rng.randrange(1, 4)):
            a, b = rng.sample(range(n), 2)
            d = rng.randrange(0, 4)
            sup[a] += d
            sup[b] -= d
        case = {"kind": "ns", "n": n, "arcs": arcs, "supplies": sup}
        z = rng.random()
        if z < 0.1:
            case["ns_max_iter"] = rng.choice([0, 1, 1, 2, 3, 5])  # an iteration budget that may run out before optimality is proven
        elif z < 0.6:
            case["ns_max_iter"] = "sweep"  # the run is cut at every iteration budget below what it needs
        if rng.random() < 0.3:
            case["ns_shared"] = True  # the caller keeps its arc / supply lists and asks a second time with the same objects
        return case
    used = sorted({a[0] for a in arcs} | {a[1] for a in arcs})
    s, t = rng.sample(used, 2)
    return {"kind": "st", "n": n, "arcs": arcs, "s": s, "t": t, "demand": rng.choice([0, 1, 1, 2, 3, 5, 8]),
            "labels": [gen_labels(rng, n), gen_labels(rng, n)], "ints_too": rng.random() < 0.3, "fresh": rng.random() < 0.5}


# ------------------------------------------------------------------------------------------- features (known-finding scopes)


def features(arcs):
    pairs = {}
    for u, v, cap, c in arcs:
        pairs.setdefault((u, v), []).append(c)
    par = any(len(set(cs)) > 1 for cs in pairs.values())
    anti = any((v, u) in pairs for (u, v) in pairs)
    return {"parallel_diff_cost": par, "anti_parallel": anti}


# ------------------------------------------------------------------------------------------- judges


def judge_mcf(case, o, labels, tag, opt):
    m = solvor_mod("flow")
    arcs = case["arcs"]
    L = [tuple(x) if isinstance(x, list) else x for x in labels]
    graph: dict = {}
    fresh = case.get("fresh") and all(isinstance(x, str) for x in L)
    cl = (lambda x: (x + "x")[:-1]) if fresh else (lambda x: x)  # equal but not identical label objects
    for u, v, cap, c in arcs:
        graph.setdefault(L[u], []).append((cl(L[v]), cap, c))
    key = dict(target="min_cost_flow", **features(arcs))
    try:
        with budget.steps(STEP_LIMIT):
            res = m.min_cost_flow(graph, cl(L[case["s"]]), cl(L[case["t"]]), case["demand"])
    except budget.StepBudgetExceeded:
        o.violate(PROP, "no_return", f"{tag}: min_cost_flow did not return within {STEP_LIMIT} events", **key)
        return None
    except SOLVER_ERRORS as e:
        o.violate(PROP, f"exception:{type(e).__name__}", f"{tag}: min_cost_flow raised {type(e).__name__}: {e}", **key)
        return None
    st = res.status.name
    if opt is None:
        if st != "INFEASIBLE":
            o.violate(PROP, "feasible_for_infeasible", f"{tag}: status {st}, objective {res.objective} but no feasible flow exists", **key)
        return res
    if st == "INFEASIBLE":
        o.violate(PROP, "wrong_infeasible", f"{tag}: INFEASIBLE but a flow of cost {opt} exists", **key)
        return res
    inv = {L[i]: i for i in range(case["n"])}
    pooled: dict = {}
    for u, v, cap, c in arcs:
        pooled.setdefault((u, v), []).append((c, cap))
    bal = [0] * case["n"]
    tot = 0
    for (a, b), f in res.solution.items():
        if a not in inv or b not in inv or (inv[a], inv[b]) not in pooled:
            o.violate(PROP, "bad_flow", f"{tag}: flow on non-existent arc {(a, b)}", **key)
            return res
        if not isinstance(f, int) or f < 0:
            o.violate(PROP, "bad_flow", f"{tag}: flow {f!r} on {(a, b)} is not a non-negative integer", **key)
            return res
        c = flowref.cheapest_fill(pooled[(inv[a], inv[b])], f)
        if c is None:
            o.violate(PROP, "capacity_exceeded", f"{tag}: flow {f} on {(a, b)} exceeds pooled capacity {sum(x[1] for x in pooled[(inv[a], inv[b])])}", **key)
            return res
        tot += c
        bal[inv[a]] -= f
        bal[inv[b]] += f
    for i in range(case["n"]):
        want = -case["demand"] if i == case["s"] else (case["demand"] if i == case["t"] else 0)
        if bal[i] != want:
            o.violate(PROP, "not_conserving", f"{tag}: node {L[i]} has net inflow {bal[i]}, expected {want} (flow {res.solution})", **key)
            return res
    if res.objective != tot:
        o.violate(PROP, "cost_mismatch", f"{tag}: reported cost {res.objective} but the returned flow costs {tot}", **key)
    elif tot != opt:
        o.violate(PROP, "not_optimal", f"{tag}: cost {tot}, minimum is {opt}", **key)
    return res


def judge_ns(case, o, n, arcs, supplies, opt, max_iter=None, shared=None):
    """`shared` = (arc list, supply list) objects handed to the solver as they are - a caller asking again with the very same
    objects (what an earlier call may have done to them is part of the history); otherwise fresh copies."""
    m = solvor_mod("network_simplex")
    key = dict(target="network_simplex", **features(arcs))
    try:
        with budget.steps(STEP_LIMIT):
            kw = {"max_iter": max_iter} if max_iter is not None else {}
            a_obj, s_obj = shared if shared is not None else ([tuple(a) for a in arcs], list(supplies))
            res = m.network_simplex(n, a_obj, s_obj, **kw)
    except budget.StepBudgetExceeded:
        o.violate(PROP, "no_return", f"network_simplex did not return within {STEP_LIMIT} events", **key)
        return None
    except SOLVER_ERRORS as e:
        o.violate(PROP, f"exception:{type(e).__name__}", f"network_simplex raised {type(e).__name__}: {e}", **key)
        return None
    st = res.status.name
    if st == "MAX_ITER" and kw:
        o.fault("budget_cut")
        if res.iterations < kw["max_iter"]:
            o.violate(PROP, "early_max_iter", f"network_simplex: MAX_ITER after {res.iterations} iterations with max_iter={kw['max_iter']}", **key)
        return res  # out of budget: no claim about feasibility or optimality is made
    if opt is None:
        if st != "INFEASIBLE":
            o.violate(PROP, "feasible_for_infeasible", f"network_simplex: status {st}, objective {res.objective} but no feasible flow exists", **key)
        return res
    if st == "INFEASIBLE":
        o.violate(PROP, "wrong_infeasible", f"network_simplex: INFEASIBLE but a flow of cost {opt} exists", **key)
        return res
    pooled: dict = {}
    for u, v, cap, c in arcs:
        pooled.setdefault((u, v), []).append((c, cap))
    bal = [0] * n
    tot = 0
    for (a, b), f in res.solution.items():
        if (a, b) not in pooled:
            o.violate(PROP, "bad_flow", f"network_simplex: flow on non-existent arc {(a, b)}", **key)
            return res
        if f != int(f) or f < 0:
            o.violate(PROP, "bad_flow", f"network_simplex: flow {f!r} on {(a, b)}", **key)
            return res
        c = flowref.cheapest_fill(pooled[(a, b)], int(f))
        if c is None:
            o.violate(PROP, "capacity_exceeded", f"network_simplex: flow {f} on {(a, b)} exceeds the pooled capacity", **key)
            return res
        tot += c
        bal[a] -= int(f)
        bal[b] += int(f)
    for i in range(n):
        if bal[i] != -supplies[i]:
            o.violate(PROP, "not_conserving", f"network_simplex: node {i} has net inflow {bal[i]}, supply {supplies[i]} (flow {res.solution})", **key)
            return res
    if res.objective != tot:
        o.violate(PROP, "cost_mismatch", f"network_simplex: reported cost {res.objective} but the returned flow costs {tot}", **key)
    elif tot != opt:
        o.violate(PROP, "not_optimal", f"network_simplex: cost {tot}, minimum is {opt}", **key)
    return res


def exec_assign(case, o):
    m = solvor_mod("flow")
    mat = case["matrix"]
    n = len(mat)
    mm = len(mat[0]) if n else 0
    key = dict(target="solve_assignment")
    try:
        with budget.steps(STEP_LIMIT):
            res = m.solve_assignment(tuple(tuple(r) for r in mat) if case.get("seq_as") == "tuple" else [list(r) for r in mat])
    except budget.StepBudgetExceeded:
        o.violate(PROP, "no_return", f"solve_assignment did not return within {STEP_LIMIT} events", **key)
        return
    except SOLVER_ERRORS as e:
        o.violate(PROP, f"exception:{type(e).__name__}", f"solve_assignment raised {type(e).__name__}: {e}", **key)
        return
    k = min(n, mm)
    best = None
    if n <= mm:
        for perm in itertools.permutations(range(mm), n):
            c = sum(mat[i][perm[i]] for i in range(n))
            if best is None or c < best:
                best = c
    else:
        for rows in itertools.permutations(range(n), mm):
            c = sum(mat[rows[j]][j] for j in range(mm))
            if best is None or c < best:
                best = c
    a = res.solution
    used = [j for j in a if j != -1]
    if len(a) != n or len(used) != k or len(set(used)) != len(used) or any(not (0 <= j < mm) for j in used):
        o.violate(PROP, "bad_assignment", f"assignment {a} for a {n}x{mm} matrix", **key)
        return
    tot = sum(mat[i][j] for i, j in enumerate(a) if j != -1)
    if res.objective != tot:
        o.violate(PROP, "cost_mismatch", f"reported {res.objective}, assignment {a} costs {tot}", **key)
    elif tot != (best or 0):
        o.violate(PROP, "not_optimal", f"assignment {a} costs {tot}, optimum {best}", **key)
    o.trace.append(["assign", list(a), repr(res.objective)])
    o.steps += res.iterations
    o.nontrivial = res.iterations >= 2


def execute(case) -> Outcome:
    global _selftested
    o = Outcome()
    if not _selftested:
        flowref.self_test()
        _selftested = True
    budget.install(["solvor.flow", "solvor.network_simplex"])
    if case["kind"] == "assign":
        exec_assign(case, o)
        return o
    n = case["n"]
    arcs = [tuple(a) for a in case["arcs"]]
    if case["kind"] == "ns":
        opt = flowref.mcf_supplies(n, arcs, case["supplies"])
        budgets = case.get("ns_max_iter")
        shared = ([tuple(a) for a in case["arcs"]], list(case["supplies"])) if case.get("ns_shared") else None
        res = judge_ns(case, o, n, case["arcs"], case["supplies"], opt, max_iter=budgets if isinstance(budgets, int) else None, shared=shared)
        o.trace.append(["ns", opt, None if res is None else [res.status.name, repr(res.objective)]])
        if res is not None:
            o.steps += res.iterations
            o.nontrivial = res.iterations >= 2
        if shared is not None and res is not None and not o.violations:
            # the same caller asks again with the same list objects: the answer is judged like the first one
            r2 = judge_ns(case, o, n, case["arcs"], case["supplies"], opt, max_iter=budgets if isinstance(budgets, int) else None, shared=shared)
            o.probe("ns_asked_twice_with_the_same_objects")
            o.trace.append(["ns-again", None if r2 is None else [r2.status.name, repr(r2.objective)]])
        if budgets == "sweep" and res is not None and not o.violations and res.status.name != "MAX_ITER":
            # every iteration budget below what the unlimited run needed (all of them up to 16, else a spread): whatever is
            # returned at that cut is judged - MAX_ITER claims nothing, any other status is a verdict
            t = res.iterations
            cuts = list(range(0, t + 1)) if t <= 16 else sorted({0, 1, 2, t - 2, t - 1, t} | {(t * k) // 11 for k in range(1, 11)})
            for b in cuts:
                rb = judge_ns(case, o, n, case["arcs"], case["supplies"], opt, max_iter=b)
                o.trace.append(["ns-cut", b, None if rb is None else [rb.status.name, repr(rb.objective)]])
        return o
    opt = flowref.mcf_st(n, arcs, case["s"], case["t"], case["demand"])
    answers = []
    label_sets = list(case["labels"]) + ([list(range(n))] if case.get("ints_too") else [])
    for k, L in enumerate(label_sets):
        res = judge_mcf(case, o, L, f"labelling#{k}", opt)
        L = [tuple(x) if isinstance(x, list) else x for x in L]
        if res is not None and res.status.name == "OPTIMAL":
            inv = {L[i]: i for i in range(n)}
            answers.append(sorted((inv[a], inv[b], f) for (a, b), f in res.solution.items()))
            o.steps += res.iterations
            if res.iterations >= 2:
                o.nontrivial = True
    if len(answers) >= 2 and any(a != answers[0] for a in answers[1:]):
        o.probe("hash_order_changed_the_flow")
    sup = [0] * n
    sup[case["s"]] += case["demand"]
    sup[case["t"]] -= case["demand"]
    r2 = judge_ns(case, o, n, case["arcs"], sup, opt)
    o.trace.append(["st", opt, answers[:1], None if r2 is None else [r2.status.name, repr(r2.objective)]])
    return o


def shrink(case):
    if case["kind"] == "assign":
        mat = case["matrix"]
        if len(mat) > 1:
            yield from shr.list_shrinks(case, ("matrix",), 1)
        if mat and len(mat[0]) > 1:
            for j in range(len(mat[0]) - 1, -1, -1):
                c = copy.deepcopy(case)
                for r in c["matrix"]:
                    del r[j]
                yield c
        for i, r in enumerate(mat):
            for j, v in enumerate(r):
                if v not in (0, 1):
                    c = copy.deepcopy(case)
                    c["matrix"][i][j] = 0 if v < 1 else 1
                    yield c
        return
    for cand in shr.list_shrinks(case, ("arcs",), 1):
        if case["kind"] == "st":
            used = {a[0] for a in cand["arcs"]} | {a[1] for a in cand["arcs"]}
            if cand["s"] not in used or cand["t"] not in used:
                continue
        yield cand
    if case["kind"] == "st":
        for v in shr.shrink_int(case["demand"], 0):
            yield shr.with_path(case, ("demand",), v)
        if case.get("ints_too"):
            yield shr.with_path(case, ("ints_too",), False)
    else:
        for i, s in enumerate(case["supplies"]):
            if s > 0:
                for j, t in enumerate(case["supplies"]):
                    if t < 0:
                        c = copy.deepcopy(case)
                        c["supplies"][i] -= 1
                        c["supplies"][j] += 1
                        yield c
                        break
    for i, a in enumerate(case["arcs"]):
        if a[2] > 1:
            c = copy.deepcopy(case)
            c["arcs"][i][2] = a[2] - 1
            yield c
        if a[3] not in (0, 1):
            c = copy.deepcopy(case)
            c["arcs"][i][3] = 1 if a[3] > 1 else 0
            if not flowref.has_negative_cycle(case["n"], [tuple(x) for x in c["arcs"]]):
                yield c
