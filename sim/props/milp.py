"""C04 - MILP answers are integer-feasible and OPTIMAL means proven optimal (thin seam).

Seam S1: the optional LNS improvement pass (`lns_iterations>0` on binary-looking programs) draws from Random(seed) -
`seed=None` by default - and hands a derived seed to an inner `lns`.  The simulator owns both generators (faithful /
unseeded with simulated entropy / scripted boundary draws) and sweeps a swarm of option sets per instance; the verdict
must be invariant.  The rest of the statement is decided by the same runs against an exact reference
(integer-box enumeration x exact vertex enumeration for the continuous part) - differential part, DESIGN 3."""

from __future__ import annotations

import copy
import itertools
from fractions import Fraction

import budget
import seams
import shrink as shr
from core import Outcome, solvor_mod

PROP = "C04"
RULE = ("each run = one small MILP (<=5 variables, <=6 rows + explicit box rows, integer data, any subset integer, <=2 continuous "
        "variables; binary-looking slice with x<=1 rows; unbounded-relaxation slice; infeasible instances arise naturally) solved "
        "under 4 sampled option sets (warm_start none/optimal/feasible/infeasible/wrong-length/fractional, heuristics, "
        "lns_iterations 0-6, destroy fraction, solution_limit 1-4, seed None/int) each with its own RNG schedule (faithful / "
        "unseeded / scripted); non-trivial: branch-and-bound explored >=2 nodes or the LNS pass drew random numbers; "
        "distinct = digest of (instance, per-configuration status/objective)")
REAL = ["solvor.milp.solve_milp (incl. _round_binary, _lns_improve, _solve_sub_mip)", "solvor.simplex.solve_lp", "solvor.lns.lns"]
STUB = ["random.Random inside solvor.milp and solvor.lns (SimRandom)"]
ASSUMPTIONS = ["max_iter / max_nodes at their defaults or cut small (then MAX_ITER / FEASIBLE claim nothing, every other status is judged)", "exact reference by box enumeration and Fraction vertex enumeration"]
TIERS = {
    "quick": {"runs": 16000, "block": 500, "budget_s": 80},
    "thorough": {"runs": 600000, "block": 1000, "budget_s": 900},
}
SOLVER_ERRORS = (UnboundLocalError, IndexError, KeyError, TypeError, ValueError, ZeroDivisionError, OverflowError, AttributeError,
                 RecursionError, AssertionError, NameError)
STEP_LIMIT = 6_000_000
TOL = 1e-5  # looser than the solver eps (1e-6): the property does not fix a tolerance


# ------------------------------------------------------------------------------------------- generation


def _configs(rng, k, plain=False):
    out = []
    for _ in range(k):
        out.append({
            "warm": "none" if plain else rng.choice(["none", "none", "optimal", "feasible", "zeros", "lp_rounded"]),
            "heuristics": rng.random() < 0.7, "lns_iterations": 0 if plain else rng.choice([0, 0, 2]),
            "lns_destroy_frac": 0.3, "solution_limit": 1 if plain else rng.choice([1, 1, 3]), "seed": rng.choice([None, 0, 7]),
            "gap_tol": None, "rng": seams.gen_rng_case(rng, 0.35, 60), "pick": rng.getrandbits(20)})
    return out


def gen_subset_sum(rng):
    """A long branch-and-bound run: subset-sum as a 0/1 knapsack (thousands of nodes, tens of thousands of pivots in all)."""
    n = rng.randrange(12, 19)
    w = [rng.randrange(1000, 10000) for _ in range(n)]
    cap = sum(x for x in w if rng.random() < 0.5) if rng.random() < 0.7 else rng.randrange(min(w), sum(w))
    A = [list(w)] + [[1 if j == i else 0 for j in range(n)] for i in range(n)]
    b = [max(cap, min(w))] + [1] * n
    return {"family": "subset_sum", "seq_as": "list", "c": list(w), "A": A, "b": b, "integers": list(range(n)), "minimize": False,
            "ub": [1] * n, "free_var": None, "configs": _configs(rng, 1, plain=True), "step_limit": 3_000_000_000}


def gen_degenerate(rng):
    """Many rows through the origin (a highly degenerate vertex where ratio tests tie) and one sum row as the only bound."""
    n = rng.randrange(3, 7)
    k = rng.choice([2, 3, 3])
    A, b = [], []
    for _ in range(rng.randrange(2, 6)):
        row = [rng.randrange(-9, 10) for _ in range(n)]
        if any(row):
            A.append(row)
            b.append(0)
    A.append([1] * n)
    b.append(k)
    ints = list(range(n))
    if rng.random() < 0.3:
        ints.remove(rng.randrange(n))
    return {"family": "degenerate", "seq_as": rng.choice(["list", "tuple"]), "c": [rng.randrange(-9, 3) for _ in range(n)], "A": A, "b": b,
            "integers": ints, "minimize": True, "ub": [k] * n, "free_var": None, "configs": _configs(rng, 2)}


def _origin_not_optimal(c):
    """Cheap sufficient test: some point e_i or e_i + e_j is feasible and better than the origin."""
    n, A, cc = len(c["c"]), c["A"][:-1], c["c"]
    for i in range(n):
        for j in range(i, n):
            if cc[i] + (cc[j] if j != i else 0) < 0 and all(r[i] + (r[j] if j != i else 0) <= 0 for r in A):
                return True
    return False


def gen_degenerate_guided(rng, k=600):
    """Greybox-guided member of the degenerate family: of k candidate cones those whose origin is not optimal are kept,
    and of these the one whose root LP needs the most simplex pivots under the code being checked (solve_lp capped at 300
    pivots) is the case.  Stalling / cycling at a degenerate vertex is a 1-in-tens-of-thousands coincidence even among such
    cones; the guidance brings it into a quick run.  The chosen program is stored in the case like any other, so replay
    does not repeat the search."""
    cands = [c for c in (gen_degenerate(rng) for _ in range(k)) if _origin_not_optimal(c)]
    if not cands:
        return gen_degenerate(rng)
    try:
        solve_lp = solvor_mod("simplex").solve_lp
    except Exception:  # noqa: BLE001 - no library on the path (master regenerating a case): unguided
        return cands[0]
    best, best_it = cands[0], -1
    for c in cands:
        try:
            it = solve_lp(c["c"], c["A"], c["b"], minimize=True, max_iter=300).iterations
        except Exception:  # noqa: BLE001 - judged when the case is executed, not here
            it = 10 ** 6
        if it > best_it:
            best, best_it = c, it
    best["guided_pivots"] = best_it
    return best


def shifted(rng, case):
    """The same program with the integer variables moved far from the origin (x_j = L_j + y_j): values of the order 1e5-1e6
    with the same fractional parts in the relaxation."""
    n = len(case["c"])
    lb = [0] * n
    for j in case["integers"]:
        lb[j] = rng.choice([0, 100000, 300000, 1000000, 1000000])
    if not any(lb):
        return case
    A, b = case["A"], case["b"]
    for i in range(len(A)):
        b[i] += sum(A[i][j] * lb[j] for j in range(n))
    for j in range(n):
        if lb[j]:
            A.append([-1 if k == j else 0 for k in range(n)])
            b.append(-lb[j])
    case["lb"] = lb
    case["ub"] = [u + l for u, l in zip(case["ub"], lb)]
    case["family"] = "shifted"
    return case


def gen_bigcoef(rng):
    """Small programs (3-4 bounded integer variables) whose integer data are in the hundreds or thousands: the simplex
    tableau is unscaled, so absolute tolerances meet entries of very different magnitudes."""
    n = rng.randrange(3, 5)
    hi = rng.choice([200, 200, 900, 3000])
    ub = [rng.choice([1, 1, 2, 4]) for _ in range(n)]
    A, b = [], []
    for _ in range(rng.randrange(2, 8)):
        row = [rng.choice([0, rng.randrange(-hi, hi + 1), rng.randrange(-hi, hi + 1)]) for _ in range(n)]
        if any(row):
            A.append(row)
            lo_v = sum(min(0, a * u) for a, u in zip(row, ub))
            hi_v = sum(max(0, a * u) for a, u in zip(row, ub))
            b.append(rng.randrange(lo_v, hi_v + 1) if rng.random() < 0.8 else 0)
    for j in range(n):
        A.append([1 if k == j else 0 for k in range(n)])
        b.append(ub[j])
    cfgs = _configs(rng, 2)
    for c in cfgs:
        c["max_nodes"] = 2000  # keeps a program whose node LPs repeat themselves from running for minutes
    return {"family": "bigcoef", "seq_as": "list", "c": [rng.randrange(-hi, hi + 1) for _ in range(n)], "A": A, "b": b,
            "integers": list(range(n)), "minimize": rng.random() < 0.5, "ub": ub, "free_var": None, "configs": cfgs}


def generate(rng, tier):
    y = rng.random()
    if 0.5 < y < 0.56:
        return gen_bigcoef(rng)
    if y < 0.0008:
        return gen_subset_sum(rng)
    if y < (0.08 if tier == "quick" else 0.2):
        return gen_degenerate(rng)
    if 0.6 < y < 0.64:
        return gen_degenerate_guided(rng)
    case = generate_small(rng, tier)
    if case["free_var"] is None and rng.random() < 0.08:
        case = shifted(rng, case)
    return case


def generate_small(rng, tier):
    n = rng.randrange(1, 6)
    kind = rng.choice(["general", "general", "binary", "binary", "unbounded", "knap", "knap", "knap"])
    knap = kind == "knap"
    if knap:  # knapsack-like rows: fractional LP relaxations, so branch-and-bound, rounding and the LNS pass really run
        kind = rng.choice(["binary", "binary", "general"])
        n = rng.randrange(3, 6)
    n_cont = rng.choice([0, 0, 1, 2]) if n > 1 else rng.choice([0, 0, 1])
    n_cont = min(n_cont, n)
    cont = sorted(rng.sample(range(n), n_cont))
    integers = [j for j in range(n) if j not in cont]
    if kind == "binary" and not integers:
        kind = "general"
    ub = [1 if (kind == "binary" and j in integers) else rng.choice([1, 2, 3]) for j in range(n)]
    nearbin = None
    if kind == "binary" and len(integers) >= 2 and rng.random() < 0.35:
        # nearly binary: one general-integer variable among binaries (binary detection must not clamp it)
        nearbin = rng.choice(integers)
        ub[nearbin] = rng.choice([2, 3])
    m = rng.randrange(0, 7 if n <= 3 else 5)
    A, b = [], []
    for _ in range(m):
        row = [rng.choice([0, 0, 1, 1, 2, 3, -1, -2, 4, 5, -3]) for _ in range(n)]
        if not any(row):
            continue
        lo = sum(min(0, a * u) for a, u in zip(row, ub))
        hi = sum(max(0, a * u) for a, u in zip(row, ub))
        rhs = rng.randrange(lo - 1, hi + 2) if rng.random() < 0.85 else rng.randrange(-6, 7)
        A.append(row)
        b.append(rhs)
    c = [rng.randrange(-6, 7) for _ in range(n)]
    minimize = rng.random() < 0.5
    if knap:
        A, b = [], []
        for _ in range(rng.randrange(1, 4)):
            row = [rng.randrange(2, 8) for _ in range(n)]
            tot = sum(a * u for a, u in zip(row, ub))
            if rng.random() < 0.5:  # packing row
                A.append(row)
                b.append(max(1, tot // 2 - rng.randrange(0, 2)))
            else:  # covering row  (sum >= d)
                A.append([-a for a in row])
                b.append(-max(1, tot // 3))
        c = [rng.randrange(1, 10) for _ in range(n)]
        if rng.random() < 0.7:
            minimize = any(x < 0 for row in A for x in row) and not any(x > 0 for row in A for x in row)
    free_var = None
    if kind == "unbounded":
        # variable free_var is not bounded above and improves the objective; x = 0 stays feasible
        free_var = rng.randrange(n)
        for i in range(len(A)):
            A[i][free_var] = -abs(A[i][free_var])
            b[i] = abs(b[i])
        c[free_var] = -rng.randrange(1, 5) if minimize else rng.randrange(1, 5)
    # explicit box rows (x_j <= ub_j) so that the integer box is finite
    for j in range(n):
        if j != free_var:
            A.append([1 if k == j else 0 for k in range(n)])
            b.append(ub[j])
    if nearbin is not None and rng.random() < 0.7:
        j = rng.choice([k for k in integers if k != nearbin])
        A.append([1 if k == j else 0 for k in range(n)])  # the bound row of a binary listed once more
        b.append(1)
    if A and rng.random() < 0.3:  # redundant rows: the same row (often a bound row) listed twice
        for _ in range(rng.choice([1, 1, 2])):
            i = rng.randrange(len(A))
            A.append(list(A[i]))
            b.append(b[i] + rng.choice([0, 0, 1]))
    if not A:  # solve_milp rejects an empty constraint matrix: keep the instance inside the documented domain
        A.append([-1 if k == (free_var or 0) else 0 for k in range(n)])
        b.append(0)
    order = list(range(len(A)))
    rng.shuffle(order)
    A = [A[i] for i in order]
    b = [b[i] for i in order]
    configs = []
    for _ in range(4):
        configs.append({
            "warm": rng.choice(["none", "none", "optimal", "feasible", "infeasible", "wrong_length", "fractional", "negative_entry",
                                "negative_entry", "zeros", "ones", "lp_rounded"]),
            "heuristics": rng.random() < 0.7,
            "lns_iterations": rng.choice([0, 0, 1, 2, 4, 6]),
            "lns_destroy_frac": rng.choice([0.1, 0.3, 0.6, 1.0]),
            "solution_limit": rng.choice([1, 1, 1, 2, 3, 4]),
            "seed": rng.choice([None, None, 0, 7, 12345]),
            "gap_tol": rng.choice([None, None, None, 1e-3, 0.05]),
            "max_nodes": rng.choice([None, None, None, None, 1, 2, 5, 20]),  # a node budget that may run out before anything is proven
            "rng": seams.gen_rng_case(rng, 0.35, 60),
            "pick": rng.getrandbits(20),
            # a pivot budget per LP that may run out inside a node LP (phase 1 or 2): nothing may then be claimed from that LP
            "max_iter": rng.choice([None, None, None, None, None, 1, 2, 3, 5, 8, 15, 40]),
        })
    integers = list(integers)
    rng.shuffle(integers)  # the order in which the integer variables are designated carries no meaning
    return {"seq_as": rng.choice(["list", "list", "tuple"]), "c": c, "A": A, "b": b, "integers": integers, "minimize": minimize, "ub": ub, "free_var": free_var, "configs": configs}


# ------------------------------------------------------------------------------------------- exact reference


def lp_vertices_opt(cc, rows, rhs, k, minimize):
    """Exact optimum of  opt cc.y  s.t. rows.y <= rhs, y >= 0 over k<=2 continuous variables (bounded region), by vertex enumeration.
    Returns (value, point) or None if infeasible."""
    if k == 0:
        return (Fraction(0), ()) if all(r >= 0 for r in rhs) else None
    cons = [(list(map(Fraction, r)), Fraction(h)) for r, h in zip(rows, rhs)]
    for j in range(k):
        cons.append(([Fraction(-1) if i == j else Fraction(0) for i in range(k)], Fraction(0)))
    best = None
    for combo in itertools.combinations(range(len(cons)), k):
        if k == 1:
            a, h = cons[combo[0]]
            if a[0] == 0:
                continue
            pt = (h / a[0],)
        else:
            (a1, h1), (a2, h2) = cons[combo[0]], cons[combo[1]]
            det = a1[0] * a2[1] - a1[1] * a2[0]
            if det == 0:
                continue
            pt = ((h1 * a2[1] - a1[1] * h2) / det, (a1[0] * h2 - h1 * a2[0]) / det)
        if all(sum(a[i] * pt[i] for i in range(k)) <= h for a, h in cons):
            val = sum(Fraction(cc[i]) * pt[i] for i in range(k))
            if best is None or (val < best[0] if minimize else val > best[0]):
                best = (val, pt)
    return best


def reference(case):
    """Returns dict(status, value, feasible_points(list of (obj, x)) capped) for the boxed instances; for the unbounded slice
    returns {'status': 'UNBOUNDED'}."""
    if case["free_var"] is not None:
        return {"status": "UNBOUNDED"}
    if case.get("family") == "subset_sum":
        w, cap = case["c"], case["b"][0]
        reach = 1
        for x in w:
            reach |= reach << x
        reach &= (1 << (cap + 1)) - 1
        return {"status": "OPTIMAL", "value": Fraction(reach.bit_length() - 1), "points": []}
    c, A, b, ints, ub = case["c"], case["A"], case["b"], case["integers"], case["ub"]
    n = len(c)
    lb = case.get("lb") or [0] * n
    cont = [j for j in range(n) if j not in ints]
    best = None
    points = []
    for vals in itertools.product(*[range(lb[j], ub[j] + 1) for j in ints]):
        fixed = dict(zip(ints, vals))
        rhs = [Fraction(b[i]) - sum(A[i][j] * fixed[j] for j in ints) for i in range(len(A))]
        rows = [[A[i][j] for j in cont] for i in range(len(A))]
        r = lp_vertices_opt([c[j] for j in cont], rows, rhs, len(cont), case["minimize"])
        if r is None:
            continue
        val = r[0] + sum(c[j] * fixed[j] for j in ints)
        x = [Fraction(0)] * n
        for j in ints:
            x[j] = Fraction(fixed[j])
        for i, j in enumerate(cont):
            x[j] = r[1][i]
        points.append((val, x))
        if best is None or (val < best if case["minimize"] else val > best):
            best = val
    if best is None:
        return {"status": "INFEASIBLE"}
    return {"status": "OPTIMAL", "value": best, "points": points}


def feasible(case, x):
    c, A, b, ints = case["c"], case["A"], case["b"], case["integers"]
    if len(x) != len(c):
        return f"length {len(x)}"
    for j, v in enumerate(x):
        if v < -TOL:
            return f"x[{j}]={v} < 0"
    for j in ints:
        if abs(x[j] - round(x[j])) > TOL:
            return f"integer variable x[{j}]={x[j]!r} is fractional"
    for i, row in enumerate(A):
        lhs = sum(a * v for a, v in zip(row, x))
        if lhs > b[i] + 1e-5:
            return f"row {i}: {row}.x = {lhs!r} > {b[i]}"
    return None


# ------------------------------------------------------------------------------------------- execution


def warm_start_for(case, cfg, ref):
    import random
    n = len(case["c"])
    w = cfg["warm"]
    r = random.Random(cfg["pick"])
    if w == "none":
        return None
    if w == "wrong_length":
        return [0.0] * (n + 1)
    if w == "fractional":
        return [0.5] * n
    if w == "infeasible":
        return [float(u + 1) for u in case["ub"]]
    if w == "zeros":  # often infeasible for covering rows, and then better than any feasible point when minimising
        return [0.0] * n
    if w == "ones":  # often infeasible for packing rows, and then better than any feasible point when maximising
        return [1.0] * n
    if w == "lp_rounded":  # every variable at the bound its cost prefers: right length, usually infeasible, never worse than the optimum
        return [float(case["ub"][j]) if ((case["c"][j] < 0) == case["minimize"]) else 0.0 for j in range(n)]
    pts = ref.get("points") or []
    if not pts:
        return [0.0] * n
    if w == "optimal":
        pts = [p for p in pts if p[0] == ref["value"]]
    x = [float(v) for v in r.choice(pts)[1]]
    if w == "negative_entry":
        # a point that may satisfy every row and integrality but not x >= 0 (prefer a continuous variable, objective-improving)
        cont = [j for j in range(n) if j not in case["integers"]]
        j = r.choice(cont) if cont and r.random() < 0.8 else r.randrange(n)
        x[j] = -float(r.choice([1, 2, 5]))
    return x


def run_cfg(case, cfg, ref):
    m = solvor_mod("milp")
    plan = seams.make_rng_plan(cfg["rng"])
    res = exc = None
    exceeded = False
    try:
        with seams.install_rng(["solvor.milp", "solvor.lns"], plan), budget.steps(case.get("step_limit", STEP_LIMIT)):
            seq = tuple if case.get("seq_as") == "tuple" else list  # Sequences: tuples are as legal as lists
            inp = case.setdefault("_inputs", (seq(case["c"]), seq(seq(r) for r in case["A"]), seq(case["b"]), seq(case["integers"])))
            kw = {"minimize": case["minimize"], "warm_start": warm_start_for(case, cfg, ref), "solution_limit": cfg["solution_limit"],
                  "heuristics": cfg["heuristics"], "lns_iterations": cfg["lns_iterations"], "lns_destroy_frac": cfg["lns_destroy_frac"],
                  "seed": cfg["seed"]}
            if cfg["pick"] % 2:  # arguments equal to the documented defaults are left out half of the time
                for k, d in (("minimize", True), ("warm_start", None), ("solution_limit", 1), ("heuristics", True), ("lns_iterations", 0),
                             ("lns_destroy_frac", 0.3), ("seed", None)):
                    if kw[k] == d and kw[k] is not False:
                        del kw[k]
            if cfg.get("gap_tol") is not None:
                kw["gap_tol"] = cfg["gap_tol"]
            if cfg.get("max_nodes") is not None:
                kw["max_nodes"] = cfg["max_nodes"]
            if cfg.get("max_iter") is not None:
                kw["max_iter"] = cfg["max_iter"]
            res = m.solve_milp(inp[0], inp[1], inp[2], inp[3], **kw)
    except budget.StepBudgetExceeded:
        exceeded = True
    except SOLVER_ERRORS as e:
        exc = e
    return res, exc, exceeded, plan


def judge(case, cfg, res, exc, exceeded, ref, o: Outcome, label):
    feats = dict(target="solve_milp", lns=cfg["lns_iterations"] > 0, kind=("unbounded" if case["free_var"] is not None else "boxed"))
    if case.get("family") == "bigcoef":
        feats["data"] = "hundreds+"
    if exceeded:
        # the statement is about what solve_milp returns; on these <=5-variable programs the legitimate work is below 0.2 M
        # events (measured), so 6 M events without returning means no result will be delivered
        o.violate(PROP, "no_return", f"{label}: solve_milp did not return within {STEP_LIMIT} events on a {len(case['c'])}-variable program", **feats)
        return None
    if exc is not None:
        o.violate(PROP, f"exception:{type(exc).__name__}", f"{label}: solve_milp raised {type(exc).__name__}: {exc}", **feats)
        return None
    st = res.status.name
    c = case["c"]
    sols = [res.solution] if res.solution is not None else []
    if res.solutions:
        sols += list(res.solutions)
    if st in ("OPTIMAL", "FEASIBLE"):
        if res.solution is None:
            o.violate(PROP, "no_solution", f"{label}: status {st} without a solution", **feats)
            return st
        for k, x in enumerate(sols):
            why = feasible(case, x)
            if why:
                o.violate(PROP, "infeasible_point", f"{label}: status {st}, point #{k} {tuple(x)}: {why}", **feats)
                return st
        obj = sum(cj * xj for cj, xj in zip(c, res.solution))
        if abs(obj - res.objective) > 1e-6 * max(1.0, abs(obj)):
            o.violate(PROP, "objective_mismatch", f"{label}: reported {res.objective!r} but c.x = {obj!r} at {tuple(res.solution)}", **feats)
            return st
    if ref["status"] == "UNBOUNDED":
        if st != "UNBOUNDED" and not (st == "MAX_ITER" and cfg.get("max_iter") is not None):
            o.violate(PROP, "missed_unbounded", f"{label}: status {st} although x=0 is feasible and variable {case['free_var']} improves the "
                      f"objective without bound", **feats)
        return st
    if st == "UNBOUNDED":
        o.violate(PROP, "wrong_unbounded", f"{label}: UNBOUNDED on a boxed program (reference {ref['status']})", **feats)
    elif st == "INFEASIBLE" and ref["status"] != "INFEASIBLE":
        o.violate(PROP, "wrong_infeasible", f"{label}: INFEASIBLE but an integer-feasible point with objective {ref['value']} exists", **feats)
    elif st in ("OPTIMAL", "FEASIBLE") and ref["status"] == "INFEASIBLE":
        o.violate(PROP, "solution_for_infeasible", f"{label}: status {st} on an infeasible program", **feats)
    elif st == "OPTIMAL":
        opt = float(ref["value"])
        gap = cfg.get("gap_tol") or 1e-6
        if abs(res.objective - opt) > 1e-5 + gap * max(abs(opt), abs(res.objective)):
            o.violate(PROP, "mislabelled_optimal", f"{label}: OPTIMAL with objective {res.objective!r}, true optimum {opt!r} "
                      f"(x={tuple(res.solution)})", **feats)
    elif st == "FEASIBLE":
        opt = float(ref["value"])
        worse = res.objective < opt - 1e-5 if case["minimize"] else res.objective > opt + 1e-5
        if worse:
            o.violate(PROP, "better_than_optimum", f"{label}: objective {res.objective!r} beats the true optimum {opt!r}", **feats)
    elif st == "MAX_ITER":
        o.probe("max_iter_status")
    return st


def execute(case) -> Outcome:
    case = dict(case)  # the option sets of one case share the same c/A/b/integers objects (a caller re-solving one model)
    o = Outcome()
    budget.install(["solvor.milp", "solvor.simplex", "solvor.lns"])
    ref = reference(case)
    summary = []
    verdicts = set()
    for k, cfg in enumerate(case["configs"]):
        res, exc, exceeded, plan = run_cfg(case, cfg, ref)
        st = judge(case, cfg, res, exc, exceeded, ref, o, f"config#{k}")
        if plan.draws:
            o.nontrivial = True
            o.probe("lns_pass_drew_random_numbers")
        if plan.fired:
            o.fault("rng_boundary", plan.fired)
        if plan.unseeded_used:
            o.fault("rng_unseeded")
        if res is not None:
            o.steps += res.iterations
            if res.iterations >= 2:
                o.nontrivial = True
            summary.append([st, repr(res.objective)])
            if st in ("OPTIMAL", "INFEASIBLE", "UNBOUNDED") and cfg["solution_limit"] == 1 and not cfg.get("gap_tol"):
                verdicts.add((st, round(res.objective, 6) if st == "OPTIMAL" else None))
        # reproducibility of the configuration under the same simulated entropy
        if res is not None and cfg["lns_iterations"] > 0:
            res2, exc2, ex2, _ = run_cfg(case, cfg, ref)
            if res2 is None or (res2.status, res2.objective, res2.solution) != (res.status, res.objective, res.solution):
                o.violate(PROP, "irreproducible", f"config#{k}: two executions with the same seed/entropy differ", target="solve_milp", lns=True, kind="boxed")
    objs = [v[1] for v in verdicts if v[0] == "OPTIMAL"]
    if len({v[0] for v in verdicts}) == 1 and objs and max(objs) - min(objs) <= 2e-6 * max(abs(x) for x in objs):
        # two proven optima may differ by the (relative, default 1e-6) gap_tol each run is entitled to - it only shows on
        # programs whose objective values are of the order 1e6 (shifted family)
        verdicts = set(list(verdicts)[:1])
    if len(verdicts) > 1:
        o.violate(PROP, "verdict_depends_on_options", f"proven verdicts differ across option sets / RNG schedules: {sorted(verdicts, key=repr)}",
                  target="solve_milp", lns=any(c["lns_iterations"] for c in case["configs"]), kind="boxed")
    o.trace = [ref["status"], summary]
    return o


def shrink(case):
    if len(case["configs"]) > 1:
        yield from shr.list_shrinks(case, ("configs",), 1)
    n = len(case["c"])
    if case.get("family") == "subset_sum":
        for j in range(n - 1, -1, -1):
            if n > 2:
                c = copy.deepcopy(case)
                del c["c"][j], c["ub"][j], c["A"][1 + j]
                for row in c["A"]:
                    del row[j]
                del c["b"][1 + j]
                c["integers"] = list(range(n - 1))
                yield c
        return
    if case.get("family") in ("shifted", "degenerate", "bigcoef"):
        for i in range(len(case["A"]) - 1, -1, -1):
            row = case["A"][i]
            if case.get("family") == "degenerate" and i == len(case["A"]) - 1:
                continue
            if case.get("family") == "shifted" and sum(1 for a in row if a) == 1:
                continue  # bound rows stay: the reference enumerates the box they describe
            c = copy.deepcopy(case)
            del c["A"][i], c["b"][i]
            yield c
        return
    box = [i for i, row in enumerate(case["A"]) if sum(1 for a in row if a) == 1 and max(row) == 1 and case["b"][i] == case["ub"][row.index(1)]]
    for i in range(len(case["A"]) - 1, -1, -1):
        if i in box:
            continue
        c = copy.deepcopy(case)
        del c["A"][i]
        del c["b"][i]
        yield c
    if n > 1:
        for j in range(n - 1, -1, -1):
            if case["free_var"] == j:
                continue
            c = copy.deepcopy(case)
            del c["c"][j]
            del c["ub"][j]
            keep = []
            for i, row in enumerate(c["A"]):
                isbox = sum(1 for a in row if a) == 1 and row[j] == 1
                del row[j]
                if not isbox and any(row):
                    keep.append(i)
                elif not isbox and c["b"][i] < 0:
                    keep.append(i)
            c["A"] = [c["A"][i] for i in keep]
            c["b"] = [c["b"][i] for i in keep]
            c["integers"] = [(x if x < j else x - 1) for x in c["integers"] if x != j]
            if c["free_var"] is not None and c["free_var"] > j:
                c["free_var"] -= 1
            yield c
    for k, cfg in enumerate(case["configs"]):
        if cfg["warm"] != "none":
            yield shr.with_path(case, ("configs", k, "warm"), "none")
        if cfg["lns_iterations"] > 0:
            yield shr.with_path(case, ("configs", k, "lns_iterations"), 0)
        if cfg["solution_limit"] > 1:
            yield shr.with_path(case, ("configs", k, "solution_limit"), 1)
        if cfg["rng"].get("script_r") or cfg["rng"].get("script_b"):
            c = copy.deepcopy(case)
            c["configs"][k]["rng"]["script_r"], c["configs"][k]["rng"]["script_b"] = {}, []
            yield c
    for j in range(n):
        if case["c"][j] not in (0, 1, -1):
            yield shr.with_path(case, ("c", j), 1 if case["c"][j] > 0 else -1)
