"""C01 / C02 - solve_sat: returned assignments are models (C01); verdicts are correct and every call returns (C02).

Seam S7: the CDCL's don't-care components are taken over by the simulator - the decision schedule (which variable,
which phase: through the guarded hook in pick_var), the restart timer (luby_factor, max_restarts), the learned-clause
garbage collector (threshold constant of reduce_db, patched in the code object so that the miss path runs on formulas
small enough for an exact oracle) and the conflict budget.  Bounded liveness by a deterministic step budget."""

from __future__ import annotations

import copy
import os
import subprocess
import tempfile
import types

import budget
import shrink as shr
from core import Outcome, solvor_mod

RULE = ("each run = one CNF (random mixed-width k-CNF with unit/binary clauses over-represented, gaps in numbering; pigeonhole, parity, "
        "at-most-one ladders, exactly-one grids) with assumptions, solution_limit, luby_factor, max_restarts, max_conflicts, a "
        "reduce_db threshold in {2,8,64,2000} and a decision policy (shipped VSIDS / random / lowest / highest / scripted prefix) "
        "executed under the hooks; models checked clause by clause, verdicts against a bit-parallel truth table (n<=16) or z3; "
        "step budget for termination; non-trivial: >=1 conflict analysed; distinct = digest of the event-kind string "
        "(conflict(backjump distance)/restart/reduce/model) plus verdict")
REAL = ["solvor.sat.solve_sat (end to end, incl. luby, BinaryImplications, propagate, analyze, reduce_db)"]
STUB = ["decision heuristic when a non-VSIDS policy is sampled (hook sat.pick_var)", "reduce_db threshold constant (code-object patch)"]
ASSUMPTIONS = ["perturbed decision schedules are legal CDCL executions of the same code", "z3 / truth-table oracles are correct"]
TIERS = {
    "quick": {"runs": 60000, "block": 1000, "budget_s": 80},
    "thorough": {"runs": 10000000, "block": 2000, "budget_s": 900},
}
SOLVER_ERRORS = (UnboundLocalError, IndexError, KeyError, TypeError, ValueError, ZeroDivisionError, OverflowError, AttributeError,
                 RecursionError, AssertionError, NameError)


# ------------------------------------------------------------------------------------------- reference


def truth_table_models(clauses, assumptions, n):
    """Bit-parallel model set of a CNF over variables 1..n (n <= 20): returns an int with one bit per assignment."""
    size = 1 << n
    full = (1 << size) - 1
    masks = [0] * (n + 1)
    for v in range(1, n + 1):
        # bit a of mask is set iff variable v is true in assignment a (bit v-1 of a)
        block = 1 << (v - 1)
        unit = ((1 << block) - 1) << block  # pattern of length 2*block: low block zeros, high block ones
        period = 2 * block
        m = 0
        reps = size // period
        # build by doubling
        m = unit
        length = period
        while length < size:
            m |= m << length
            length *= 2
        masks[v] = m & full
    acc = full
    for c in clauses:
        cm = 0
        for lit in c:
            v = abs(lit)
            cm |= masks[v] if lit > 0 else (full & ~masks[v])
        acc &= cm
        if not acc:
            return 0
    for lit in assumptions:
        v = abs(lit)
        acc &= masks[v] if lit > 0 else (full & ~masks[v])
    return acc


def popcount(x):
    return bin(x).count("1")


def z3_verdict(clauses, assumptions, n):
    with tempfile.NamedTemporaryFile("w", suffix=".cnf", delete=False) as fh:
        allc = [list(c) for c in clauses] + [[a] for a in assumptions]
        fh.write(f"p cnf {n} {len(allc)}\n")
        for c in allc:
            fh.write(" ".join(map(str, c)) + " 0\n")
        path = fh.name
    try:
        p = subprocess.run(["/usr/bin/z3", "-dimacs", path], capture_output=True, text=True, timeout=120)
    finally:
        os.unlink(path)
    out = p.stdout.split()
    if "UNSATISFIABLE" in out or "unsat" in out:
        return False
    if "SATISFIABLE" in out or "sat" in out:
        return True
    raise RuntimeError(f"z3 gave no verdict: {p.stdout[:200]} {p.stderr[:200]}")


# ------------------------------------------------------------------------------------------- generation


def gen_formula(rng, big):
    kind = rng.choice(["rand"] * 4 + ["hard"] * 5 + ["php", "parity", "amo", "grid", "units"])
    if kind == "hard":  # near-threshold k-SAT: conflicts, learning, backjumps and restarts actually fire
        n = rng.randrange(6, 15 if not big else 17)
        k = rng.choice([3, 3, 3, 2, 4])
        ratio = {2: rng.choice([0.9, 1.1, 1.5]), 3: rng.choice([3.8, 4.3, 4.8, 5.5]), 4: rng.choice([8.0, 9.9])}[k]
        clauses = []
        for _ in range(max(1, int(n * ratio))):
            vs = rng.sample(range(1, n + 1), k)
            clauses.append([v if rng.random() < 0.5 else -v for v in vs])
        for _ in range(rng.choice([0, 0, 1, 2])):  # a few units on top
            v = rng.randrange(1, n + 1)
            clauses.append([v if rng.random() < 0.5 else -v])
        rng.shuffle(clauses)
        return clauses
    if kind == "rand":
        n = rng.randrange(1, 15 if not big else 17)
        widths = rng.choice([[1, 2, 2, 3, 3, 3], [2, 2, 3], [3], [1, 2, 3, 4], [2], [1, 1, 2, 3]])
        m = rng.randrange(1, max(2, int(n * rng.choice([1.0, 2.0, 3.0, 4.3, 6.0]))) + 1)
        vars_ = list(range(1, n + 1))
        if rng.random() < 0.2:  # gaps in the numbering
            vars_ = sorted(rng.sample(range(1, n + 4), n)) if n + 3 <= 16 else vars_
        clauses = []
        for _ in range(m):
            k = min(rng.choice(widths), len(vars_))
            vs = rng.sample(vars_, k)
            clauses.append([v if rng.random() < 0.5 else -v for v in vs])
        return clauses
    if kind == "php":  # pigeons into holes
        h = rng.randrange(1, 4)
        p = h + rng.choice([0, 1])
        if p * h > 14:
            p, h = 3, 2
        var = lambda i, j: i * h + j + 1
        clauses = [[var(i, j) for j in range(h)] for i in range(p)]
        for j in range(h):
            for a in range(p):
                for b in range(a + 1, p):
                    clauses.append([-var(a, j), -var(b, j)])
        return clauses
    if kind == "parity":
        n = rng.randrange(2, 8)
        clauses = []
        for _ in range(rng.randrange(1, 5)):
            vs = rng.sample(range(1, n + 1), min(n, rng.choice([2, 3])))
            par = rng.randrange(2)
            for bits in range(1 << len(vs)):
                if bin(bits).count("1") % 2 != par:  # forbid assignments of the wrong parity
                    clauses.append([(-v if (bits >> i) & 1 else v) for i, v in enumerate(vs)])
        return clauses
    if kind == "amo":
        n = rng.randrange(2, 9)
        clauses = [[v for v in range(1, n + 1)]] if rng.random() < 0.7 else []
        for a in range(1, n + 1):
            for b in range(a + 1, n + 1):
                clauses.append([-a, -b])
        if rng.random() < 0.5:
            clauses.append([rng.choice([-1, 1]) * rng.randrange(1, n + 1)])
        return clauses
    if kind == "grid":  # exactly one per row, at most one per column (k x k)
        k = rng.randrange(2, 4)
        var = lambda i, j: i * k + j + 1
        clauses = []
        for i in range(k):
            clauses.append([var(i, j) for j in range(k)])
            for a in range(k):
                for b in range(a + 1, k):
                    clauses.append([-var(i, a), -var(i, b)])
                    clauses.append([-var(a, i), -var(b, i)])
        return clauses
    # units: many unit clauses mixed with conflicts
    n = rng.randrange(2, 10)
    clauses = []
    for _ in range(rng.randrange(1, 4)):
        v = rng.randrange(1, n + 1)
        clauses.append([v if rng.random() < 0.5 else -v])
    for _ in range(rng.randrange(1, 3 * n)):
        vs = rng.sample(range(1, n + 1), min(n, rng.choice([2, 3])))
        clauses.append([v if rng.random() < 0.5 else -v for v in vs])
    return clauses


def add_gadgets(rng, clauses, n, k):
    """Auxiliary variables that are forced under some assignments of the core and free under others:
    for a literal l two fresh variables s, t with (l -> s), (l -> t), (s and t -> l), (s or t); always satisfiable on top of the core."""
    nxt = n
    for v in rng.sample(range(1, n + 1), min(k, n)):
        for lit in ((v, -v) if rng.random() < 0.6 else (rng.choice([v, -v]),)):
            s, t = nxt + 1, nxt + 2
            nxt += 2
            clauses += [[-lit, s], [-lit, t], [-s, -t, lit], [s, t]]
    return nxt


def generate(rng, tier):
    big = tier == "thorough"
    if big and rng.random() < 0.003:
        # the shipped GC threshold (2000 learned clauses) reached for real: threshold-ratio 3-SAT, z3 as oracle
        n = rng.choice([100, 120, 150])
        clauses = []
        for _ in range(int(n * 4.26)):
            vs = rng.sample(range(1, n + 1), 3)
            clauses.append([v if rng.random() < 0.5 else -v for v in vs])
        return {"clauses": clauses, "assumptions": [], "solution_limit": 1, "luby_factor": rng.choice([10, 100]),
                "max_restarts": 10000, "max_conflicts": 12000, "gc": 2000,
                "decide": {"policy": "vsids", "seed": 0, "p": 1.0}}
    if big and rng.random() < 0.02:
        # larger random 3-SAT near the threshold, judged by z3; un-patched GC threshold
        n = rng.choice([20, 30, 40, 50])
        m = int(n * rng.choice([3.8, 4.2, 4.5]))
        clauses = []
        for _ in range(m):
            vs = rng.sample(range(1, n + 1), 3)
            clauses.append([v if rng.random() < 0.5 else -v for v in vs])
        return {"clauses": clauses, "assumptions": [], "solution_limit": 1, "luby_factor": rng.choice([1, 2, 10, 100]),
                "max_restarts": 10000, "max_conflicts": 20000, "gc": rng.choice([16, 64, 2000]),
                "decide": {"policy": rng.choice(["vsids", "vsids", "random"]), "seed": rng.getrandbits(30), "p": 1.0}}
    if rng.random() < 0.15:
        # medium near-threshold 3-SAT (z3 is the oracle) with an aggressive GC threshold and restart timer: learned-clause
        # database reductions, renumbering of learned clauses and restarts interleave dozens of times per run
        n = rng.randrange(18, 36)
        clauses = []
        for _ in range(int(n * rng.choice([4.0, 4.3, 4.6]))):
            vs = rng.sample(range(1, n + 1), 3)
            clauses.append([v if rng.random() < 0.5 else -v for v in vs])
        if rng.random() < 0.5:
            add_gadgets(rng, clauses, n, rng.randrange(1, 9))
        return {"clauses": clauses, "assumptions": [], "solution_limit": 1, "luby_factor": rng.choice([1, 2, 3]),
                "max_restarts": 10000, "max_conflicts": 20000, "gc": rng.choice([2, 4, 8, 16, 2000]),
                "decay": rng.choice([0.95, 0.5, 0.1, 1e-10, 1e-25]),
                "decide": {"policy": rng.choice(["random", "vsids", "vsids"]), "seed": rng.getrandbits(30), "p": 1.0}}
    if rng.random() < 0.004:
        # a propagation chain thousands of literals long behind one conflict (size, not search effort)
        n = rng.choice([1200, 2000, 3000])
        chain = list(range(1, n + 1))
        if rng.random() < 0.3:
            chain.reverse()  # the far end of the chain carries the low variable numbers
        clauses = [[-a, b] for a, b in zip(chain, chain[1:])]
        first, last = chain[0], chain[-1]
        y, z = n + 1, n + 2
        if rng.random() < 0.7:  # the chain's end and a later decision y are incompatible: the conflict sits one level above the chain
            clauses += [[y, first], [-y, -last, z], [-y, -last, -z]]
        else:
            clauses += [[-last, y], [-last, -y, z], [-last, -y, -z]]
        rng.shuffle(clauses)
        return {"clauses": clauses, "assumptions": [1] if rng.random() < 0.3 else [], "solution_limit": 1, "luby_factor": 100,
                "max_restarts": 10000, "max_conflicts": 100000, "gc": 2000,
                "decide": {"policy": rng.choice(["vsids", "low", "high"]), "seed": rng.getrandbits(30), "p": 1.0}}
    clauses = gen_formula(rng, big)
    if rng.random() < 0.01:
        clauses = []  # the empty formula
        # (a formula made of empty clauses only - no variable at all - is answered with the empty model by design: the
        #  repository's own test_clause_with_no_variables_detected pins that, so such formulas are not generated)
    if clauses and rng.random() < 0.08:
        # legal but unusual clause shapes: a literal listed twice, or a tautology (x or not x)
        for _ in range(rng.choice([1, 1, 2])):
            c = rng.choice(clauses)
            if c:
                lit = rng.choice(c)
                c.insert(rng.randrange(len(c) + 1), lit if rng.random() < 0.7 else -lit)
    if rng.random() < 0.1 and clauses:
        # the same clause listed twice (formulas assembled from parts often repeat clauses)
        for _ in range(rng.choice([1, 1, 2])):
            clauses.insert(rng.randrange(len(clauses) + 1), list(rng.choice(clauses)))
    if clauses and rng.random() < 0.03:
        clauses.append([])  # empty clause
    nv = max((abs(l) for c in clauses for l in c), default=1)
    if clauses and 3 <= nv <= 12 and rng.random() < 0.15:
        nv = add_gadgets(rng, clauses, nv, 1)
    assumptions = []
    if rng.random() < 0.4:
        for _ in range(rng.choice([1, 1, 2, 3])):
            v = rng.randrange(1, nv + 1)
            if rng.random() < 0.1:
                v = nv + rng.randrange(1, 3)  # an assumption about a variable no clause mentions
            assumptions.append(v if rng.random() < 0.5 else -v)
    case = {
        "clauses": clauses,
        "assumptions": assumptions,
        "solution_limit": rng.choice([1, 1, 1, 2, 3, 5, 12, 100]),
        "luby_factor": rng.choice([1, 1, 2, 3, 10, 100]),
        "max_restarts": rng.choice([0, 1, 3, 10000, 10000]),
        "max_conflicts": rng.choice([1, 3, 10, 100000, 100000, 100000]),
        "gc": rng.choice([2, 8, 64, 2000, 2000]),
        # VSIDS decay knob: with 0.95 activities pass 1e100 after ~4500 conflicts and overflow to inf after ~13800; smaller
        # values bring those states (rescaling code, infinite activities) into runs of a few conflicts
        "decay": rng.choice([0.95, 0.95, 0.95, 0.5, 0.1, 1e-10, 1e-25]),
        "decide": {"policy": rng.choice(["vsids", "vsids", "random", "random", "low", "high", "prefix"]), "seed": rng.getrandbits(30),
                   "p": rng.choice([1.0, 0.5, 0.2])},
        # equal clauses are passed as ONE shared list object (`[clause] * 2` style) or as tuples
        "share": rng.choice([False, False, True]), "tuples": rng.random() < 0.2, "omit_defaults": rng.random() < 0.5,
        "iterables": rng.choice([None, None, None, None, "rows", "outer"]),
    }
    return case


# ------------------------------------------------------------------------------------------- simulator-owned seams


class Sink:
    def __init__(self, decide):
        import random
        self.policy = decide.get("policy", "vsids")
        self.rng = random.Random(decide.get("seed", 0))
        self.p = decide.get("p", 1.0)
        self.events: list = []
        self.conflicts = 0
        self.restarts = 0
        self.reduces = 0
        self.removed = 0
        self.models = 0
        self.overrides = 0
        self.max_jump = 0
        self.decisions = 0

    def choose(self, point, default, ctx):
        if point != "sat.pick_var" or self.policy == "vsids":
            return default
        vals = ctx["vals"]
        n = ctx["n_vars"]
        self.decisions += 1
        if self.policy == "prefix" and self.decisions > 6:
            return default
        if self.p < 1.0 and self.rng.random() >= self.p:
            return default
        undef = solvor_mod("sat").UNDEF
        free = [v for v in range(1, n + 1) if vals[v] == undef]
        if not free:
            return default
        if self.policy == "low":
            v = free[0]
        elif self.policy == "high":
            v = free[-1]
        else:
            v = self.rng.choice(free)
        if self.rng.random() < 0.5:
            ctx["phase"][v] = not ctx["phase"][v]  # phase override: any phase is a legal decision
        self.overrides += 1
        return v

    def event(self, kind, data):
        if kind == "sat.conflict":
            self.conflicts += 1
            j = data["level"] - data["bt_level"] if data["learned"] is not None else 0
            self.max_jump = max(self.max_jump, j)
            self.events.append(f"c{min(j, 9)}")
        elif kind == "sat.restart":
            self.restarts += 1
            self.events.append("R")
        elif kind == "sat.reduce_db":
            self.reduces += 1
            self.removed += data["before"] - data["after"]
            self.events.append("G")
        elif kind == "sat.model":
            self.models += 1
            self.events.append("M")


_patched: dict = {}


def solve_sat_with_gc(threshold: int, decay: float = 0.95):
    """solve_sat rebuilt with the literal 2000 of reduce_db and/or the VSIDS decay literal 0.95 of decay_activity replaced
    (no repo change); None if a literal to be replaced is not found."""
    m = solvor_mod("sat")
    f = m.solve_sat
    if threshold == 2000 and decay == 0.95:
        return f
    key = (id(f), threshold, decay)
    if key in _patched:
        return _patched[key]
    outer = f.__code__
    new_consts = []
    found = set()
    for c in outer.co_consts:
        if isinstance(c, types.CodeType) and c.co_name == "reduce_db" and 2000 in c.co_consts and threshold != 2000:
            c = c.replace(co_consts=tuple(threshold if x == 2000 and isinstance(x, int) else x for x in c.co_consts))
            found.add("gc")
        if isinstance(c, types.CodeType) and c.co_name == "decay_activity" and 0.95 in c.co_consts and decay != 0.95:
            c = c.replace(co_consts=tuple(decay if isinstance(x, float) and x == 0.95 else x for x in c.co_consts))
            found.add("decay")
        new_consts.append(c)
    if found != ({"gc"} if threshold != 2000 else set()) | ({"decay"} if decay != 0.95 else set()):
        _patched[key] = None
        return None
    g = types.FunctionType(outer.replace(co_consts=tuple(new_consts)), f.__globals__, f.__name__, f.__defaults__, f.__closure__)
    g.__kwdefaults__ = f.__kwdefaults__
    budget.install(functions=[g])
    _patched[key] = g
    return g


def step_limit(case):
    nc = len(case["clauses"])
    nv = max((abs(l) for c in case["clauses"] for l in c), default=1)
    lits = sum(len(c) for c in case["clauses"])
    conf = min(case["max_conflicts"], 1 << min(nv, 16))
    return 100_000 + 150 * (conf + case["solution_limit"] + 10) * (lits + nv + 10)


# ------------------------------------------------------------------------------------------- execution


def build_clauses(case):
    it = case.get("iterables")
    if it == "rows":  # each clause a one-shot iterator (e.g. rows produced by a DIMACS reader)
        return [iter(list(c)) for c in case["clauses"]]
    if it == "outer":  # the formula itself a generator of clauses
        return (list(c) for c in case["clauses"])
    if case.get("tuples"):
        return [tuple(c) for c in case["clauses"]]
    if not case.get("share"):
        return [list(c) for c in case["clauses"]]
    pool: dict = {}
    out = []
    for c in case["clauses"]:
        k = tuple(c)
        if k not in pool:
            pool[k] = list(c)
        out.append(pool[k])
    return out


def run_once(case, use_hooks=True, decide=None):
    m = solvor_mod("sat")
    fn = solve_sat_with_gc(case.get("gc", 2000), case.get("decay", 0.95))
    gc_ok = fn is not None
    if fn is None:
        fn = m.solve_sat
    sink = Sink(decide or case["decide"])
    hooked = False
    try:
        v = __import__("importlib").import_module("solvor._verif")
        hooked = bool(use_hooks and v.install(sink))
    except ImportError:
        v = None
    res = exc = None
    exceeded = False
    try:
        with budget.steps(step_limit(case)) as b:
            asm = (tuple(case["assumptions"]) if case.get("tuples") else list(case["assumptions"])) or None
            if asm and case.get("iterables"):
                asm = (a for a in list(asm))  # a one-shot iterable of assumption literals
            kw = {"assumptions": asm, "max_conflicts": case["max_conflicts"],
                  "max_restarts": case["max_restarts"], "solution_limit": case["solution_limit"], "luby_factor": case["luby_factor"]}
            if case.get("omit_defaults"):  # arguments that equal the documented defaults are left out: the defaults themselves run
                for k, d in (("assumptions", None), ("max_conflicts", 100_000), ("max_restarts", 10_000), ("solution_limit", 1),
                             ("luby_factor", 100)):
                    if kw[k] == d:
                        del kw[k]
            res = fn(build_clauses(case), **kw)
    except budget.StepBudgetExceeded:
        exceeded = True
    except SOLVER_ERRORS as e:
        exc = e
    finally:
        if v is not None:
            v.uninstall()
    return {"res": res, "exc": exc, "exceeded": exceeded, "sink": sink, "hooked": hooked, "gc_ok": gc_ok, "steps": b.count}


def check_model(clauses, assumptions, sol):
    for i, c in enumerate(clauses):
        if not any((sol.get(abs(l)) is (l > 0)) for l in c):
            return f"clause #{i} {c} is false under the returned assignment"
    for a in assumptions:
        if sol.get(abs(a)) is not (a > 0):
            return f"assumption {a} is not honoured"
    return None


def judge(case, r, o: Outcome, label, ref, shipped):
    key = {"target": "solve_sat", "shipped_path": shipped}
    clauses, assumptions = case["clauses"], case["assumptions"]
    if r["exceeded"]:
        o.violate("C02", "no_return", f"{label}: solve_sat did not return within the step budget of {step_limit(case)} events "
                  f"(conflicts seen {r['sink'].conflicts}, restarts {r['sink'].restarts})", **key)
        return
    if r["exc"] is not None:
        o.violate("C02", f"exception:{type(r['exc']).__name__}", f"{label}: solve_sat raised {type(r['exc']).__name__}: {r['exc']}", **key)
        return
    res = r["res"]
    st = res.status.name
    sols = []
    if res.solutions is not None:
        sols = list(res.solutions)
        if res.solution is not None and res.solution not in sols:
            sols.append(res.solution)
    elif res.solution is not None and st != "INFEASIBLE":
        sols = [res.solution]
    if (clauses and any(len(c) for c in clauses)) or assumptions:
        for k, sol in enumerate(sols):
            if not isinstance(sol, dict):
                o.violate("C01", "bad_model", f"{label}: solution #{k} is {sol!r}", **key)
                return
            why = check_model(clauses, assumptions, sol)
            if why:
                o.violate("C01", "bad_model", f"{label}: status {st}, solution #{k} {sol}: {why}", **key)
                # C02: "answers with a model whenever one exists" - what came back is not a model
                o.violate("C02", "answer_is_not_a_model", f"{label}: status {st}, solution #{k} {sol}: {why}", **key)
                break
        seen = []
        for sol in (list(res.solutions) if res.solutions is not None else []):
            if sol in seen:
                o.violate("C01", "duplicate_model", f"{label}: the same assignment {sol} appears twice among {len(res.solutions)} solutions", **key)
                break
            seen.append(sol)
    # verdicts
    if ref is None:
        return
    sat = ref["sat"]
    if st == "INFEASIBLE" and sat:
        o.violate("C02", "wrong_unsat", f"{label}: INFEASIBLE but the formula with assumptions {assumptions} has "
                  f"{ref.get('count', 'a')} model(s)", **key)
    if sols and not sat:
        o.violate("C02", "model_for_unsat", f"{label}: status {st} with a model although formula+assumptions is unsatisfiable", **key)
    if st == "OPTIMAL" and not sols and sat and any(len(c) for c in clauses):
        o.violate("C02", "no_model", f"{label}: OPTIMAL without a model", **key)
    if st == "MAX_ITER" and r["hooked"]:
        s = r["sink"]
        # budgets must really be exhausted (counted from the events)
        if s.conflicts + 1 < case["max_conflicts"] and s.restarts < case["max_restarts"]:
            o.violate("C02", "early_max_iter", f"{label}: MAX_ITER after {s.conflicts} analysed conflicts / {s.restarts} restarts with budgets "
                      f"max_conflicts={case['max_conflicts']} max_restarts={case['max_restarts']}", **key)
    if r["hooked"]:
        s = r["sink"]
        nv = max((abs(l) for c in clauses for l in c), default=1)
        # work bounded by the budgets: the budget is tested after each decision, and a chain of conflicts without a decision in
        # between is at most one per level, so more than max_conflicts + n_vars + 1 analysed conflicts means the budget is ignored
        if s.conflicts > case["max_conflicts"] + nv + 1:
            o.violate("C02", "budget_ignored", f"{label}: {s.conflicts} conflicts analysed with max_conflicts={case['max_conflicts']} "
                      f"(status {st})", **key)
        elif s.restarts > case["max_restarts"]:
            o.violate("C02", "budget_ignored", f"{label}: {s.restarts} restarts with max_restarts={case['max_restarts']} (status {st})", **key)
    if st not in ("OPTIMAL", "INFEASIBLE", "MAX_ITER"):
        o.violate("C02", "bad_status", f"{label}: status {st}", **key)
    if st == "OPTIMAL" and res.solutions is not None and "count" in ref and len(res.solutions) < min(case["solution_limit"], ref["count"]):
        o.probe("incomplete_enumeration")


def reference(case):
    clauses, assumptions = case["clauses"], case["assumptions"]
    if any(len(c) == 0 for c in clauses):
        return {"sat": False, "count": 0}
    nv = max([abs(l) for c in clauses for l in c] + [abs(a) for a in assumptions], default=0)  # assumptions may name further variables
    if nv == 0:
        return None
    if nv <= 16:
        ms = truth_table_models(clauses, assumptions, nv)
        return {"sat": bool(ms), "count": popcount(ms)}
    return {"sat": z3_verdict(clauses, assumptions, nv)}


def execute(case) -> Outcome:
    o = Outcome()
    budget.install(["solvor.sat"])
    ref = reference(case)
    r = run_once(case)
    shipped = (not r["hooked"]) or r["sink"].overrides == 0
    shipped = shipped and case.get("gc", 2000) == 2000 and case.get("decay", 0.95) == 0.95
    judge(case, r, o, "run", ref, shipped)
    s = r["sink"]
    o.steps = r["steps"]
    if s.overrides:
        o.fault("decision_override", s.overrides)
    if case.get("gc", 2000) != 2000 and r["gc_ok"]:
        o.fault("gc_knob")
    if case.get("decay", 0.95) != 0.95 and r["gc_ok"]:
        o.fault("vsids_decay_knob")
    if r["res"] is not None and r["res"].status.name == "MAX_ITER":
        o.fault("budget_cut")
    if s.restarts:
        o.probe("restart", s.restarts)
    if s.reduces:
        o.probe("reduce_db_ran", s.reduces)
    if s.removed:
        o.probe("reduce_db_removed_clauses", s.removed)
    if s.max_jump > 1:
        o.probe("backjump_gt1")
    if s.models > 1:
        o.probe("enumerated_gt1")
    if not r["hooked"]:
        o.probe("hooks_unavailable")
    verdict = "exceeded" if r["exceeded"] else ("exc" if r["exc"] is not None else r["res"].status.name)
    o.trace = ["".join(s.events), verdict, len(r["res"].solutions) if (r["res"] is not None and r["res"].solutions) else 0]
    o.nontrivial = s.conflicts >= 1 if r["hooked"] else (r["res"] is not None and r["res"].iterations >= 2)
    # cross-schedule invariant: the verdict under the shipped schedule (no overrides, default GC) must agree
    if o.violations == [] and not shipped and r["res"] is not None and r["res"].status.name != "MAX_ITER":
        c2 = dict(case, gc=2000, decay=0.95)
        r2 = run_once(c2, use_hooks=True, decide={"policy": "vsids"})
        judge(c2, r2, o, "shipped-schedule run", ref, True)
        if r2["res"] is not None and r2["res"].status.name != "MAX_ITER" and not r2["exceeded"]:
            a, b = r["res"].status.name, r2["res"].status.name
            if a != b:
                o.violate("C02", "schedule_dependent_verdict", f"perturbed schedule says {a}, shipped schedule says {b}", target="solve_sat", shipped_path=False)
    return o


# ------------------------------------------------------------------------------------------- shrinking


def shrink(case):
    if case["decide"]["policy"] != "vsids":
        yield shr.with_path(case, ("decide", "policy"), "vsids")
    if case.get("share"):
        yield shr.with_path(case, ("share",), False)
    if case.get("tuples"):
        yield shr.with_path(case, ("tuples",), False)
    if case.get("iterables"):
        yield shr.with_path(case, ("iterables",), None)
    if case.get("gc", 2000) != 2000:
        yield shr.with_path(case, ("gc",), 2000)
    if case.get("decay", 0.95) != 0.95:
        yield shr.with_path(case, ("decay",), 0.95)
    yield from shr.list_shrinks(case, ("clauses",), 1)
    if case["assumptions"]:
        yield from shr.list_shrinks(case, ("assumptions",), 0)
    for i, c in enumerate(case["clauses"]):
        if len(c) > 1:
            for cand in shr.drop_chunks(c, 1):
                yield shr.with_path(case, ("clauses", i), cand)
    if case["solution_limit"] > 1:
        for v in shr.shrink_int(case["solution_limit"], 1):
            yield shr.with_path(case, ("solution_limit",), v)
    if case["luby_factor"] != 100:
        yield shr.with_path(case, ("luby_factor",), 100)
    if case["max_restarts"] != 10000:
        yield shr.with_path(case, ("max_restarts",), 10000)
    if case["max_conflicts"] != 100000:
        yield shr.with_path(case, ("max_conflicts",), 100000)
    # renumber variables compactly
    used = sorted({abs(l) for c in case["clauses"] for l in c} | {abs(a) for a in case["assumptions"]})
    if used and used != list(range(1, len(used) + 1)):
        mp = {v: i + 1 for i, v in enumerate(used)}
        c2 = copy.deepcopy(case)
        c2["clauses"] = [[(mp[abs(l)] if l > 0 else -mp[abs(l)]) for l in c] for c in case["clauses"]]
        c2["assumptions"] = [(mp[abs(a)] if a > 0 else -mp[abs(a)]) for a in case["assumptions"]]
        yield c2
