"""C17 - cutting-stock plans of solve_cg / solve_bp meet every demand; OPTIMAL is minimal.

Seams: S3 cancellation through on_progress at every tick of the uncancelled run, S2 simulated time limit through the
shipped default_progress, budget cuts (max_iter / max_nodes placed inside the uncancelled run), and in custom mode a
simulator-owned pricing peer over an explicit column universe (best / first-improving / worst-improving column).
Oracle: exact minimum by DP over the demand lattice (independent of solvor)."""

from __future__ import annotations

import copy
import itertools

import budget
import seams
import shrink as shr
from core import Outcome, solvor_mod

PROP = "C17"
RULE = ("each run = one instance (cutting stock: width 5-30, 1-5 integer piece sizes, demands 0-8; or custom: explicit universe of "
        "<=10 columns incl. unit columns with a pricing peer) solved by solve_cg or solve_bp: fault-free baseline, then the same "
        "instance cancelled at every progress tick of the baseline (all ticks when <=24, else a sample), under a simulated time "
        "limit, and with max_iter / max_nodes cut below the baseline's own counters; non-trivial: baseline generated >=1 column or "
        "explored >=2 nodes; distinct = digest of (instance, per-variant status/objective)")
REAL = ["solvor.cg.solve_cg", "solvor.bp.solve_bp", "solvor.utils.pricing.knapsack_pricing/simplex_phase", "master LPs",
        "solvor.utils.helpers.report_progress/default_progress"]
STUB = ["time.perf_counter (SimClock, advanced per pricing call)", "custom-mode pricing function (peer over an explicit column universe)"]
ASSUMPTIONS = ["the pricing peer honours its contract (returns a column of its universe with its true reduced cost, or None when none improves)",
               "instances small enough for the DP optimum"]
TIERS = {
    "quick": {"runs": 16000, "block": 250, "budget_s": 90},
    "thorough": {"runs": 400000, "block": 500, "budget_s": 900},
}
STEP_LIMIT = 40_000_000
SOLVER_ERRORS = (UnboundLocalError, IndexError, KeyError, TypeError, ValueError, ZeroDivisionError, OverflowError, AttributeError,
                 RecursionError, AssertionError, NameError)


# ------------------------------------------------------------------------------------------- reference optimum


def maximal_patterns(W, sizes, demands):
    n = len(sizes)
    caps = [min(int(W // sizes[i]), demands[i]) for i in range(n)]
    pats = []

    def rec(i, rem, cur):
        if i == n:
            pats.append(tuple(cur))
            return
        for k in range(min(caps[i], int(rem // sizes[i])), -1, -1):
            cur.append(k)
            rec(i + 1, rem - k * sizes[i], cur)
            cur.pop()

    rec(0, W, [])
    pats = [p for p in pats if any(p)]
    # keep non-dominated
    out = []
    for p in pats:
        if not any(q != p and all(q[i] >= p[i] for i in range(n)) for q in pats):
            out.append(p)
    return out


def cover_min(columns, demands):
    """Minimum number of columns (with repetition) whose sum covers demands; None if impossible."""
    m = len(demands)
    cols = [c for c in columns if any(c[i] > 0 and demands[i] > 0 for i in range(m))]
    start = tuple(demands)
    if not any(start):
        return 0
    for i in range(m):
        if demands[i] > 0 and not any(c[i] > 0 for c in cols):
            return None
    # BFS over residual demand vectors
    frontier = {start}
    seen = {start}
    depth = 0
    zero = tuple([0] * m)
    while frontier:
        depth += 1
        nxt = set()
        for d in frontier:
            for c in cols:
                r = tuple(max(0, d[i] - c[i]) for i in range(m))
                if r == zero:
                    return depth
                if r not in seen:
                    seen.add(r)
                    nxt.add(r)
        frontier = nxt
    return None


# ------------------------------------------------------------------------------------------- generation


def gen_plain_fixed_pool(rng):
    """One run in eight: solve_bp over a fixed pool of rich columns with a pricing function that offers nothing
    more, fault-free only.  Every node LP is exact, so the whole branch-and-bound proof logic (bounds, branching,
    early returns) is on the line in each case."""
    m = rng.randrange(2, 5)
    demands = [rng.randrange(0, 7) for _ in range(m)]
    pool = []
    for _ in range(rng.randrange(1, 9)):
        c = [rng.choice([0, 0, 1, 1, 2, 3, 5]) for _ in range(m)]
        if any(c) and c not in pool:
            pool.append(c)
    for j in range(m):
        if not any(c[j] for c in pool):
            c = [0] * m
            c[j] = rng.choice([1, 2, 3])
            pool.append(c)
    return {"solver": "bp", "interval": 1, "mode": "custom", "demands": demands, "universe": pool, "initial": [list(c) for c in pool],
            "peer": "fixed_pool", "max_nodes": 200, "max_iter": None, "gap_tol": None, "seq_as": "list",
            "faults": {"cancel": False, "time_limit": None, "cut_iter": False, "cut_nodes": False, "sample": 1},
            "clock": {"t0": 0.0, "per_eval": 0.01, "per_read": 0.0, "events": {}}}


def generate(rng, tier):
    big = tier == "thorough"
    if rng.random() < 0.12:
        return gen_plain_fixed_pool(rng)
    case = {"solver": rng.choice(["cg", "bp"]), "interval": rng.choice([1, 1, 1, 2, 3])}
    if rng.random() < (0.6 if case["solver"] == "cg" else 0.35):
        W = rng.randrange(5, 31)
        n = rng.randrange(1, 6 if big else 5)
        sizes = [rng.randrange(1, W + 1) for _ in range(n)]
        if rng.random() < 0.25:  # the roll width need not be an integer (piece sizes and demands are)
            W = W + rng.choice([0.25, 0.5, 0.75, 0.9, 0.99, 0.995, 0.996, 0.999, 0.9999, 0.004, 0.005, 0.125, 0.375, 0.001])
        dmax = rng.choice([2, 4, 6, 8]) if n <= 3 else (rng.choice([2, 4, 6]) if n == 4 else rng.choice([2, 3]))
        demands = [rng.randrange(0, dmax + 1) for _ in range(n)]
        if rng.random() < 0.03:
            demands = [0] * n  # nothing demanded: the empty plan is the (only) minimum
        case.update({"mode": "stock", "W": W, "sizes": sizes, "demands": demands})
    else:
        m = rng.randrange(1, 5)
        dmax = rng.choice([2, 4, 6]) if m <= 3 else 3
        demands = [rng.randrange(0, dmax + 1) for _ in range(m)]
        units = [[1 if i == j else 0 for i in range(m)] for j in range(m)]
        extra = []
        for _ in range(rng.randrange(0, 8)):
            extra.append([rng.choice([0, 0, 1, 1, 2, 3]) for _ in range(m)])
        if rng.random() < 0.2 and any(demands):
            # a jumbo column covering all or half of the demand next to the small ones: the LP value can drop a lot in
            # one pricing round, so a bound derived from a *modest* reduced cost proves nothing
            k = rng.choice([1, 1, 2])
            extra.insert(rng.randrange(len(extra) + 1), [-(-d // k) for d in demands])
        extra = [c for c in extra if any(c)]
        init = [list(u) for u in units]
        for c in extra:
            if rng.random() < 0.25:
                init.append(list(c))
        uni = units + extra
        if rng.random() < 0.3:
            # an explicit pool without the unit columns (multi-piece columns only, every item still producible):
            # fractional master LPs and rounding gaps are common here
            pool = [c for c in extra if sum(c) >= 2]
            for i in range(m):
                if not any(c[i] for c in pool):
                    col = [0] * m
                    col[i] = rng.choice([2, 2, 3])
                    if m > 1 and rng.random() < 0.5:
                        col[rng.randrange(m)] += 1
                    pool.append(col)
            uni = pool
            init = [list(c) for c in pool if rng.random() < 0.7]
            for i in range(m):
                if not any(c[i] for c in init):
                    init.append(list(next(c for c in pool if c[i])))
        if rng.random() < 0.12 and m >= 2:
            # an explicit column pool that cannot produce some demanded item at all: no plan exists
            z = rng.randrange(m)
            demands[z] = max(1, demands[z])
            uni = [c for c in uni if c[z] == 0]
            init = [c for c in init if c[z] == 0]
            if not init or not uni:
                uni, init = units + extra, [list(u) for u in units]
        case.update({"mode": "custom", "demands": demands, "universe": uni, "initial": init,
                     "peer": rng.choice(["best", "best", "first_improving", "first_improving", "worst_improving", "worst_improving", "always_best"])})
        if rng.random() < 0.08 and m >= 2 and len(init) >= 2:
            # a start pool that cannot (yet) produce item z although the pricing function can supply such columns: whatever the
            # solver does with it - raise, or generate what is missing - a run stopped before that happened must not present a plan
            z = rng.randrange(m)
            rest = [c for c in init if c[z] == 0]
            if rest and any(c[z] for c in uni):
                demands[z] = max(1, demands[z])
                case.update({"initial": rest, "uncovered_start": True, "peer": "best"})
    if case["mode"] == "custom" and case["solver"] == "bp" and rng.random() < 0.3:
        # a fixed pool of rich columns, handed over completely, with a pricing function that offers nothing more:
        # every node LP is exact, so every OPTIMAL is a claimed proof; deep trees with integer nodes next to open siblings
        m = rng.randrange(2, 5)
        demands = [rng.randrange(0, 7) for _ in range(m)]
        pool = []
        for _ in range(rng.randrange(1, 9)):
            c = [rng.choice([0, 0, 1, 1, 2, 3, 5]) for _ in range(m)]
            if any(c) and c not in pool:
                pool.append(c)
        for j in range(m):
            if not any(c[j] for c in pool):
                c = [0] * m
                c[j] = rng.choice([1, 2, 3])
                pool.append(c)
        case.update({"demands": demands, "universe": pool, "initial": [list(c) for c in pool], "peer": "fixed_pool"})
    case["max_nodes"] = rng.choice([50, 200]) if case["solver"] == "bp" else None
    if case["mode"] == "custom" and not case.get("uncovered_start") and rng.random() < 0.3:
        case["initial"] = [list(c) for c in case["universe"]]  # the complete column set is handed over up front
        if rng.random() < 0.5:
            case["peer"] = "fixed_pool"  # ... and the pricing function knows it: there is no further column, ever
    if case["mode"] == "stock" and rng.random() < 0.3:
        # the caller edits its own size / demand lists in place and solves again with the same list objects
        k = rng.randrange(len(case["sizes"]))
        sib_sizes = list(case["sizes"])
        sib_sizes[k] = rng.randrange(1, int(case["W"]) + 1)
        sib_dem = list(case["demands"])
        sib_dem[rng.randrange(len(sib_dem))] = rng.randrange(0, 5)
        case["sibling"] = {"sizes": sib_sizes, "demands": sib_dem}
    case["max_iter"] = rng.choice([None, None, 20, 100])
    # a relative gap tolerance below 1/20 cannot legitimise a non-minimal plan on these instances (objective <= 20 rolls,
    # integer objective), so OPTIMAL must still mean minimal
    case["gap_tol"] = rng.choice([None, None, 0.01, 0.04]) if case["solver"] == "bp" else None
    if case["mode"] == "custom" and case["initial"] and not case.get("uncovered_start") and rng.random() < 0.45:
        for _ in range(rng.choice([1, 1, 2])):  # a column listed twice (pools assembled from several sources repeat columns)
            col = list(rng.choice(case["initial"]))
            case["initial"].insert(rng.randrange(len(case["initial"]) + 1), col)
            big = [i for i, a in enumerate(col) if a >= 2]
            if big and rng.random() < 0.6:
                # make the repeated column attractive at a fractional level (demand not a multiple of its yield), so that the
                # master LP and the branching really have to deal with both copies
                i = rng.choice(big)
                case["demands"][i] = col[i] * rng.choice([1, 1, 2]) + rng.randrange(1, col[i])
    case["seq_as"] = rng.choice(["list", "list", "tuple"])
    case["consume_plan"] = rng.random() < 0.3  # the caller writes into the plan dict it was handed
    if rng.random() < 0.04 and not case.get("uncovered_start"):
        case["demands"] = [0] * len(case["demands"])  # nothing demanded: the trivial answers (no rolls) are answers too
    case["faults"] = {
        "cancel": rng.random() < 0.8,
        "time_limit": rng.random() if rng.random() < 0.4 else None,
        "cut_iter": rng.random() < 0.6,
        "cut_nodes": rng.random() < 0.6,
        "sample": rng.getrandbits(30),
    }
    case["clock"] = {"t0": rng.choice([0.0, 1e6]), "per_eval": rng.choice([0.01, 1.0, 30.0]), "per_read": 0.0, "events": {}}
    return case


# ------------------------------------------------------------------------------------------- execution


def make_peer(case, stats, clock):
    uni = [tuple(c) for c in case["universe"]]
    kind = case["peer"]

    def pricing(duals):
        stats["pricing_calls"] += 1
        clock.on_eval()
        if kind == "fixed_pool":
            return None, 0.0
        scored = [(1.0 - sum(d * a for d, a in zip(duals, c)), c) for c in uni]
        imp = [(rc, c) for rc, c in scored if rc < -1e-7]
        if not imp:
            if kind == "always_best":  # a peer that always hands back its best column with its true reduced cost (>= 0 here)
                rc, c = min(scored)
                return c, rc
            return None, 0.0
        if kind == "always_best":
            rc, c = min(imp)
            return c, rc
        if kind == "best":
            rc, c = min(imp)
        elif kind == "first_improving":
            rc, c = imp[0]
            stats["peer_unusual"] += 1 if (rc, c) != min(imp) else 0
        else:
            rc, c = max(imp)
            stats["peer_unusual"] += 1 if (rc, c) != min(imp) else 0
        return c, rc

    return pricing


def run_variant(case, policy, max_iter=None, max_nodes=None):
    """One call of the solver.  Returns dict(res, exc, ticks, cancelled, pricing_calls, elapsed, skipped)."""
    solver = case["solver"]
    mod = solvor_mod("cg" if solver == "cg" else "bp")
    clock = seams.SimClock(case.get("clock"))
    prog = seams.Progressor(policy, clock)
    stats = {"pricing_calls": 0, "peer_unusual": 0}
    kw = {"on_progress": prog, "progress_interval": case["interval"]}
    if max_iter is None:
        max_iter = case.get("max_iter")  # optional per-case configuration (default: solver default 1000)
    if max_iter is not None:
        kw["max_iter"] = max_iter
    if solver == "bp":
        kw["max_nodes"] = max_nodes if max_nodes is not None else case["max_nodes"]
        if case.get("gap_tol") is not None:
            kw["gap_tol"] = case["gap_tol"]
    real_kp = mod.knapsack_pricing

    def kp(*a, **k):
        stats["pricing_calls"] += 1
        clock.on_eval()
        return real_kp(*a, **k)

    res = exc = None
    skipped = False
    mod.knapsack_pricing = kp
    try:
        with seams.install_clock(clock), budget.steps(STEP_LIMIT):
            fn = mod.solve_cg if solver == "cg" else mod.solve_bp
            # every variant of a case gets the same demand / size / column objects (a caller re-running one instance)
            seq = tuple if case.get("seq_as") == "tuple" else list  # Sequences: tuples are as legal as lists
            inp = case.setdefault("_inputs", {"demands": seq(case["demands"]), "sizes": seq(case.get("sizes", [])),
                                              "initial": seq(tuple(c) for c in case.get("initial", []))})
            if case["mode"] == "stock":
                res = fn(inp["demands"], roll_width=case["W"], piece_sizes=inp["sizes"], **kw)
            else:
                res = fn(inp["demands"], pricing_fn=make_peer(case, stats, clock), initial_columns=inp["initial"], **kw)
    except budget.StepBudgetExceeded:
        skipped = True
    except SOLVER_ERRORS as e:
        exc = e
    finally:
        mod.knapsack_pricing = real_kp
    return {"res": res, "exc": exc, "ticks": prog.ticks, "cancelled": prog.cancelled_at, "stats": stats, "elapsed": clock.elapsed,
            "skipped": skipped}


def judge(case, v, o: Outcome, label, opt, faulted, fault_kind):
    solver = "solve_" + case["solver"]
    key = dict(target=solver, mode=case["mode"], fault=fault_kind)
    if v["skipped"]:
        # C17 is about the plans that come back; 40 M events is 20x the largest legitimate run measured on these instance sizes
        # (and no run of 178 k thorough soak runs came near it), so nothing will come back
        o.violate(PROP, "no_return", f"{label}: {solver} did not return within {STEP_LIMIT} events", **key)
        return
    if v["exc"] is not None:
        if opt is None or case.get("uncovered_start"):
            # no plan exists (or the start pool cannot produce an item and the solver refuses it): raising presents no plan, so the statement is not touched (solve_cg's custom mode raises
            # OverflowError from ceil(inf) here on the current tree)
            o.probe("exception_on_uncoverable_pool")
            return
        o.violate(PROP, f"exception:{type(v['exc']).__name__}", f"{label}: {solver} raised {type(v['exc']).__name__}: {v['exc']}", **key)
        return
    res = v["res"]
    st = res.status.name
    if st not in ("OPTIMAL", "FEASIBLE"):
        if not faulted and opt is not None:
            o.probe(f"unusable_status_{st}")
        return
    sol = res.solution
    demands = case["demands"]
    m = len(demands)
    if not isinstance(sol, dict):
        o.violate(PROP, "bad_plan", f"{label}: status {st} with solution {sol!r}", **key)
        return
    total = 0
    produced = [0] * m
    uni = set(tuple(c) for c in case["universe"]) if case["mode"] == "custom" else None
    for pat, cnt in sol.items():
        if not (isinstance(cnt, int) and cnt > 0) or len(pat) != m or any((not isinstance(a, int)) or a < 0 for a in pat):
            o.violate(PROP, "bad_plan", f"{label}: pattern {pat!r} x {cnt!r}", **key)
            return
        if case["mode"] == "stock":
            if sum(a * s for a, s in zip(pat, case["sizes"])) > case["W"]:
                o.violate(PROP, "pattern_too_wide", f"{label}: pattern {pat} needs {sum(a*s for a, s in zip(pat, case['sizes']))} > width {case['W']}", **key)
                return
        elif tuple(pat) not in uni:
            o.violate(PROP, "bad_plan", f"{label}: column {pat} is not in the universe", **key)
            return
        total += cnt
        for i in range(m):
            produced[i] += pat[i] * cnt
    for i in range(m):
        if produced[i] < demands[i]:
            o.violate(PROP, "demand_missed", f"{label}: status {st} but piece {i}: produced {produced[i]} < demand {demands[i]} (plan {sol})", **key)
            return
    if abs(res.objective - total) > 1e-6:
        o.violate(PROP, "objective_mismatch", f"{label}: objective {res.objective!r} but the plan uses {total} rolls", **key)
        return
    if case.get("consume_plan") and isinstance(sol, dict):
        # the plan handed back is the caller's: it books two more rolls of a pattern of its own into it.  Nothing the library
        # keeps may change with that (judged on the calls that follow - in this case and in later cases of the same process)
        sol[tuple([0] * m)] = sol.get(tuple([0] * m), 0) + 2
    if opt is not None:
        if total < opt:
            raise AssertionError(f"reference optimum {opt} above a valid plan of {total}: oracle bug ({case})")
        if st == "OPTIMAL" and total > opt and not (case.get("gap_tol") and total > 20):
            o.violate(PROP, "mislabelled_optimal", f"{label}: status OPTIMAL with {total} rolls, true minimum is {opt} (plan {sol})", **key)


def execute(case) -> Outcome:
    case = dict(case)
    o = Outcome()
    budget.install(["solvor.cg", "solvor.bp", "solvor.utils.pricing"])
    if case["mode"] == "stock":
        pats = maximal_patterns(case["W"], case["sizes"], case["demands"])
        opt = cover_min(pats, case["demands"])
    else:
        # a pricing function that never offers anything defines the explicit column set as the columns handed over
        pool = case["initial"] if case.get("peer") == "fixed_pool" else case["universe"]
        opt = cover_min([tuple(c) for c in pool], case["demands"])
    base = run_variant(case, {"kind": "never"})
    judge(case, base, o, "baseline", opt, False, "none")
    summ = [["base", _s(base)]]
    o.sim_time += base["elapsed"]
    o.steps += base["stats"]["pricing_calls"]
    if base["stats"]["peer_unusual"]:
        o.fault("peer_unusual", base["stats"]["peer_unusual"])
    if case.get("uncovered_start"):
        for lab, pol, mi in (("max_iter=0 on a start pool that cannot produce every item", {"kind": "never"}, 0),
                             ("cancel@tick1 on a start pool that cannot produce every item", {"kind": "tick", "k": 1}, None)):
            v = run_variant(case, pol, max_iter=mi)
            o.fault("budget_cut" if mi == 0 else "cancel@tick")
            judge(case, v, o, lab, opt, True, "budget" if mi == 0 else "cancel")
            summ.append([lab[:6], _s(v)])
    if base["skipped"] or base["exc"] is not None or base["res"] is None:
        o.trace = [case["solver"], case["mode"], summ]
        return o
    res = base["res"]
    f = case["faults"]
    T = base["ticks"]
    import random as _r
    srng = _r.Random(f["sample"])
    if f["cancel"] and T:
        ticks = list(range(1, T + 1)) if T <= 24 else sorted(set([1, 2, T - 1, T] + [srng.randrange(1, T + 1) for _ in range(12)]))
        for k in ticks:
            v = run_variant(case, {"kind": "tick", "k": k})
            if v["cancelled"]:
                o.fault("cancel@tick")
            judge(case, v, o, f"cancel@tick{k}/{T}", opt, True, "cancel")
            summ.append([f"c{k}", _s(v)])
            o.sim_time += v["elapsed"]
    if f["time_limit"] is not None and T and base["elapsed"] > 0:
        v = run_variant(case, {"kind": "time_limit", "limit": f["time_limit"] * base["elapsed"], "interval": 5})
        if v["cancelled"]:
            o.fault("cancel@time_limit")
        judge(case, v, o, f"time_limit({f['time_limit'] * base['elapsed']:.3f}s of {base['elapsed']:.3f}s)", opt, True, "cancel")
        summ.append(["tl", _s(v)])
        o.sim_time += v["elapsed"]
    if f["cut_iter"]:
        its = res.evaluations if case["solver"] == "bp" else res.iterations
        cuts = sorted(set([0, 1] + ([srng.randrange(0, its + 1)] if its else [])))
        for mi in cuts:
            if mi > its:
                continue
            v = run_variant(case, {"kind": "never"}, max_iter=mi)
            o.fault("budget_cut")
            judge(case, v, o, f"max_iter={mi} (baseline used {its})", opt, True, "budget")
            summ.append([f"mi{mi}", _s(v)])
    if f["cut_nodes"] and case["solver"] == "bp" and res.iterations >= 1:
        nodes = res.iterations
        for mn in sorted(set([0, 1, srng.randrange(0, nodes + 1)])):
            if mn > nodes:
                continue
            v = run_variant(case, {"kind": "never"}, max_nodes=mn)
            o.fault("budget_cut")
            judge(case, v, o, f"max_nodes={mn} (baseline explored {nodes})", opt, True, "budget")
            summ.append([f"mn{mn}", _s(v)])
    if case.get("sibling") and case["mode"] == "stock" and isinstance(case["_inputs"]["sizes"], list):
        # same list objects, edited in place: nothing remembered from the previous solves may leak into this one
        sib = dict(case, sizes=case["sibling"]["sizes"], demands=case["sibling"]["demands"])
        case["_inputs"]["sizes"][:] = sib["sizes"]
        case["_inputs"]["demands"][:] = sib["demands"]
        sib["_inputs"] = case["_inputs"]
        opt2 = cover_min(maximal_patterns(sib["W"], sib["sizes"], sib["demands"]), sib["demands"])
        v = run_variant(sib, {"kind": "never"})
        judge(sib, v, o, "second instance through the same (edited) list objects", opt2, False, "none")
        summ.append(["sib", _s(v)])
    if case["mode"] == "custom" and isinstance(case["_inputs"]["initial"], list) and case.get("peer") != "fixed_pool":
        # the caller's own initial_columns list once more, now with a pricing function that offers nothing: the explicit column
        # set of THIS call is what the caller put into that list - nothing an earlier call may have left in it
        pool = [tuple(c) for c in case["initial"]]
        opt3 = cover_min(pool, case["demands"])
        if opt3 is not None:
            fp = dict(case, peer="fixed_pool", universe=[list(c) for c in pool])
            fp["_inputs"] = case["_inputs"]
            v = run_variant(fp, {"kind": "never"})
            judge(fp, v, o, "the same initial_columns list again, pricing function silent", opt3, False, "none")
            o.probe("same_initial_list_again")
            summ.append(["again", _s(v)])
    o.trace = [case["solver"], case["mode"], summ]
    if base["stats"]["pricing_calls"] >= 2 or (case["solver"] == "bp" and res.iterations >= 2):
        o.nontrivial = True
    return o


def _s(v):
    if v["skipped"]:
        return "skipped"
    if v["exc"] is not None:
        return "exc:" + type(v["exc"]).__name__
    r = v["res"]
    return [r.status.name, repr(r.objective), r.iterations]


# ------------------------------------------------------------------------------------------- shrinking


def shrink(case):
    if case.get("sibling"):
        c = copy.deepcopy(case)
        del c["sibling"]
        yield c
        return  # keep the pair intact while it is needed: the other shrinks would desynchronise it
    f = case["faults"]
    for k in ("cancel", "cut_iter", "cut_nodes"):
        if f[k]:
            yield shr.with_path(case, ("faults", k), False)
    if f["time_limit"] is not None:
        yield shr.with_path(case, ("faults", "time_limit"), None)
    m = len(case["demands"])
    if m > 1:
        for i in range(m - 1, -1, -1):
            c = copy.deepcopy(case)
            del c["demands"][i]
            if case["mode"] == "stock":
                del c["sizes"][i]
            else:
                c["universe"] = [col[:i] + col[i + 1:] for col in c["universe"]]
                c["initial"] = [col[:i] + col[i + 1:] for col in c["initial"]]
                c["universe"] = [col for col in c["universe"] if any(col)]
                c["initial"] = [col for col in c["initial"] if any(col)]
                # de-duplicate, keep order
                seen = []
                for col in c["universe"]:
                    if col not in seen:
                        seen.append(col)
                c["universe"] = seen
                seen = []
                for col in c["initial"]:
                    if col not in seen:
                        seen.append(col)
                c["initial"] = seen
            yield c
    for i in range(m):
        for v in shr.shrink_int(case["demands"][i], 0):
            yield shr.with_path(case, ("demands", i), v)
    if case["mode"] == "stock":
        if isinstance(case["W"], int):
            for v in shr.shrink_int(case["W"], max(case["sizes"])):
                yield shr.with_path(case, ("W",), v)
        elif case["W"] - int(case["W"]) != 0.5 and int(case["W"]) + 0.5 >= max(case["sizes"]):
            yield shr.with_path(case, ("W",), int(case["W"]) + 0.5)
        for i in range(m):
            for v in shr.shrink_int(case["sizes"][i], 1):
                yield shr.with_path(case, ("sizes", i), v)
    else:
        units = m if all(case["universe"][i] == [1 if k == i else 0 for k in range(m)] for i in range(min(m, len(case["universe"])))) and len(case["universe"]) >= m else 0
        for j in range(len(case["universe"]) - 1, units - 1, -1):
            c = copy.deepcopy(case)
            col = c["universe"].pop(j)
            c["initial"] = [x for x in c["initial"] if x != col]
            yield c
        if case["peer"] != "best":
            yield shr.with_path(case, ("peer",), "best")
    if case["interval"] != 1:
        yield shr.with_path(case, ("interval",), 1)
