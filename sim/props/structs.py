"""C20 - UnionFind / FenwickTree: seeded operation histories against reference models (seam S4).

No fault kind applies (in-memory objects, indices restricted to the valid range by the property).
Refinement is checked after every operation; a deep copy of the object is fully audited after every
operation so that the audit's own reads (path compression!) never perturb the history under test."""

from __future__ import annotations

import copy
from fractions import Fraction

import shrink as shr
from core import Outcome

PROP = "C20"
RULE = ("each run = one seeded operation history (<=60 ops UnionFind n<=12 / FenwickTree n<=16, ints and dyadic "
        "rationals) applied to the real object and to a reference model (label array / plain list), compared after every "
        "operation plus a full audit of a deep copy; non-trivial: UnionFind history with a merging union after a read "
        "that followed an earlier merge, Fenwick history with an update between two queries; distinct = distinct digests "
        "of (ops, results)")
REAL = ["solvor.utils.data_structures.UnionFind", "solvor.utils.data_structures.FenwickTree"]
STUB = []
ASSUMPTIONS = ["indices in range, as the property states", "no fault kinds apply to an in-memory structure without I/O"]
TIERS = {
    "quick": {"runs": 96000, "block": 3000, "budget_s": 60},
    "thorough": {"runs": 20000000, "block": 5000, "budget_s": 900},
}


def gen_large(rng):
    """Sizes well beyond the small cases: deep trees, many Fenwick levels, long histories; audited sparsely."""
    y = rng.random()
    if y < 0.15:
        # an adversary against the balancing rule: one growing component and a stream of fresh small ones (singleton, pair or
        # triple), each glued on through a fixed choice of arguments (the newest / the oldest / a middle member of the big
        # component - usually not its representative - and the first or last member of the small one, in either order), with
        # no read in between.  If balancing ever looks at the wrong element the forest degenerates into a chain thousands deep
        grp = rng.choice([1, 2, 2, 3])
        pick_big = rng.choice(["newest", "newest", "oldest", "middle"])
        pick_small = rng.choice(["first", "last"])
        swap = rng.random() < 0.5
        small_rev = rng.random() < 0.5
        n = rng.choice([2400, 3000, 4500])
        ops, big = [], [0]
        i = 1
        while i + grp <= n:
            small = list(range(i, i + grp))
            for a, b in zip(small, small[1:]):
                ops.append(["union", b, a] if small_rev else ["union", a, b])
            x = {"newest": big[-1], "oldest": big[0], "middle": big[len(big) // 2]}[pick_big]
            z = small[0] if pick_small == "first" else small[-1]
            ops.append(["union", z, x] if swap else ["union", x, z])
            big.extend(small)
            i += grp
        ops += [["find", big[-1]], ["find", 0], ["connected", 0, big[-1]], ["component_count"], ["find", big[len(big) // 2]]]
        return {"kind": "uf", "n": n, "ops": ops, "sparse_audit": True}
    if y < 0.3:
        # bursts of updates on many distinct indices with no query in between (a write buffer, if there is one, fills and
        # has to be folded in mid-burst), then queries; a few rounds
        n = rng.choice([65, 100, 129, 300, 1000])
        init = [rng.randrange(-9, 10) for _ in range(n)]
        ops = []
        for _ in range(rng.randrange(1, 4)):
            idxs = rng.sample(range(n), min(n, rng.choice([64, 65, 66, 70, 130, 300])))
            for i in idxs:
                ops.append(["update", i, rng.randrange(-9, 10)])
            for _ in range(rng.randrange(1, 6)):
                ops.append(["prefix", rng.choice([n - 1, rng.randrange(n), idxs[-1], idxs[min(64, len(idxs) - 1)]])])
            a, b = rng.randrange(n), rng.randrange(n)
            ops.append(["range_sum", min(a, b), max(a, b)])
        return {"kind": "fw", "init": init, "ops": ops, "sparse_audit": True}
    if rng.random() < 0.15:
        # a long chain of unions without a single read in between, then reads: union by rank must keep the forest shallow
        n = rng.choice([1200, 2500, 4000])
        ops = [["union", i + 1, i] if rng.random() < 0.9 else ["union", i, i + 1] for i in range(n - 1)]
        ops += [["find", 0], ["connected", 0, n - 1], ["component_count"], ["find", n // 2]]
        return {"kind": "uf", "n": n, "ops": ops, "sparse_audit": True}
    if rng.random() < 0.5:
        n = rng.choice([64, 100, 257, 500])
        ops = []
        perm = list(range(n))
        rng.shuffle(perm)
        level = perm
        while len(level) > 1 and len(ops) < 400:  # tournament: rank log2 n
            nxt = []
            for i in range(0, len(level) - 1, 2):
                a, b = level[i], level[i + 1]
                if rng.random() < 0.5:
                    a, b = b, a
                ops.append(["union", a, b])
                nxt.append(rng.choice([a, b]))
            if len(level) % 2:
                nxt.append(level[-1])
            level = nxt
        for _ in range(rng.randrange(20, 120)):
            x = rng.random()
            if x < 0.4:
                ops.append(["union", rng.randrange(n), rng.randrange(n)])
            elif x < 0.7:
                ops.append(["find", rng.randrange(n)])
            elif x < 0.9:
                ops.append(["connected", rng.randrange(n), rng.randrange(n)])
            else:
                ops.append([rng.choice(["component_count", "component_sizes", "get_components"])])
        rng.shuffle(ops) if rng.random() < 0.3 else None
        return {"kind": "uf", "n": n, "ops": ops, "sparse_audit": True}
    n = rng.choice([63, 64, 65, 127, 128, 129, 300, 1000])
    init = [rng.randrange(-9, 10) for _ in range(n)]
    ops = []
    for _ in range(rng.randrange(50, 300)):
        x = rng.random()
        i = rng.choice([0, n - 1, n // 2, rng.randrange(n)])
        if x < 0.4:
            ops.append(["update", i, rng.randrange(-9, 10)])
        elif x < 0.7:
            ops.append(["prefix", i])
        else:
            j = rng.randrange(n)
            ops.append(["range_sum", min(i, j), max(i, j)])
    return {"kind": "fw", "init": init, "ops": ops, "sparse_audit": True}


def _all_ranges_exact(vals):
    """Every contiguous range sum of vals (Fractions) is exactly a double: a plain array then answers exactly, in any order."""
    n = len(vals)
    for l in range(n):
        acc = Fraction(0)
        for r in range(l, n):
            acc += vals[r]
            if Fraction(float(acc)) != acc:
                return False
    return True


def gen_fw_cancelling(rng):
    """Floats of very different magnitude that cancel: every contiguous range sum is exactly representable (so the plain-array
    answer is exact and order-free), but a sum over NON-contiguous elements - something only the tree's internals could form -
    rounds.  Judged against a Fraction model."""
    for _ in range(40):
        n = rng.randrange(2, 13)
        big = rng.choice([2.0 ** 53, 2.0 ** 52, 1.0, 2.0 ** 60])
        small = {2.0 ** 53: [1.0, 2.0, 3.0], 2.0 ** 52: [0.5, 1.0, 1.5], 1.0: [2.0 ** -53, 2.0 ** -52], 2.0 ** 60: [128.0, 256.0]}[big]
        vals = [0.0] * n
        for _ in range(rng.randrange(1, 4)):
            i, j = rng.sample(range(n), 2)
            sg = rng.choice([1, -1])
            vals[i] += sg * big
            vals[j] -= sg * big
        for _ in range(rng.randrange(1, 4)):
            vals[rng.randrange(n)] += rng.choice(small) * rng.choice([1, -1])
        if _all_ranges_exact([Fraction(v) for v in vals]):
            break
    else:
        n, vals, big, small = 4, [0.0, 0.0, 0.0, 1.0], 1.0, [1.0]
    model = [Fraction(v) for v in vals]
    ops = []
    for _ in range(rng.randrange(1, 25)):
        x = rng.random()
        if x < 0.3:
            i, d = rng.randrange(n), rng.choice([big, -big] + small) * rng.choice([1, -1])
            trial = list(model)
            trial[i] += Fraction(d)
            if _all_ranges_exact(trial):  # the caller stays inside "exactly representable sums"
                model = trial
                ops.append(["update", i, d])
        elif x < 0.65:
            ops.append(["prefix", rng.randrange(n)])
        else:
            a, b = rng.randrange(n), rng.randrange(n)
            ops.append(["range_sum", min(a, b), max(a, b)])
    return {"kind": "fw", "init": vals, "ops": ops, "exact": True}


def generate(rng, tier):
    big = tier == "thorough"
    if rng.random() < 0.03:
        return gen_large(rng)
    if rng.random() < 0.04:
        return gen_fw_cancelling(rng)
    if rng.random() < 0.5:
        n = rng.choice([0, 1, 2, 3, 4, 5, 6, 8, 12, 16] + ([24, 33] if big else []))
        ops = []
        m = rng.randrange(1, 90 if big else 60)
        hot = [rng.randrange(n) for _ in range(3)] if n else []
        if n >= 4 and rng.random() < 0.3:
            # tournament prefix: balanced merges drive union-by-rank to its deepest trees (rank log2 n),
            # with reads sprinkled in so that path compression interleaves with rank growth
            perm = list(range(n))
            rng.shuffle(perm)
            level = perm[: rng.choice([4, 8, 16, n]) if n >= 8 else n]
            while len(level) > 1:
                nxt = []
                for i in range(0, len(level) - 1, 2):
                    a, b = level[i], level[i + 1]
                    if rng.random() < 0.5:
                        a, b = b, a
                    ops.append(["union", a, b])
                    if rng.random() < 0.2:
                        ops.append(["find", rng.choice(perm)])
                    nxt.append(rng.choice([a, b]))
                if len(level) % 2:
                    nxt.append(level[-1])
                level = nxt
        for _ in range(m):
            x = rng.random()
            if n == 0:
                ops.append([rng.choice(["component_count", "component_sizes", "get_components", "len"])])
                continue

            def idx():
                return rng.choice(hot) if rng.random() < 0.3 else rng.randrange(n)

            if x < 0.45:
                a = idx()
                b = a if rng.random() < 0.1 else idx()
                if ops and rng.random() < 0.1 and ops[-1][0] == "union":
                    a, b = ops[-1][2], ops[-1][1]  # repeat the same pair reversed
                ops.append(["union", a, b])
            elif x < 0.6:
                ops.append(["find", idx()])
            elif x < 0.8:
                ops.append(["connected", idx(), idx()])
            elif x < 0.84:
                ops.append(["consume_components"])  # the caller empties the sets it was handed (its own objects now)
            else:
                ops.append([rng.choice(["component_count", "component_sizes", "get_components", "len"])])
        return {"kind": "uf", "n": n, "ops": ops}
    n = rng.choice([0, 1, 2, 3, 4, 5, 7, 8, 9, 16] + ([31, 32, 33] if big else []))
    mode = rng.choice(["size", "ints", "dyadic"])

    def val():
        if mode == "dyadic":
            return rng.randrange(-64, 65) / 8.0
        return rng.randrange(-9, 10)

    init = n if mode == "size" else [val() for _ in range(n)]
    ops = []
    for _ in range(rng.randrange(1, 90 if big else 60)):
        x = rng.random()
        if n == 0 or x < 0.07:
            ops.append(["len"])
        elif x < 0.1:
            ops.append(["second_tree"])
        elif x < 0.45:
            ops.append(["update", rng.randrange(n), val()])
        elif x < 0.75:
            ops.append(["prefix", rng.randrange(n)])
        else:
            a, b = rng.randrange(n), rng.randrange(n)
            ops.append(["range_sum", min(a, b), max(a, b)])
    return {"kind": "fw", "init": init, "ops": ops}


def _audit_uf(o: Outcome, uf, labels, step):
    n = len(labels)
    c = copy.deepcopy(uf)
    classes: dict[int, set] = {}
    for i, lab in enumerate(labels):
        classes.setdefault(lab, set()).add(i)
    want = sorted(sorted(s) for s in classes.values())
    if c.component_count != len(classes):
        o.violate(PROP, "refinement_broken", f"step {step}: component_count {c.component_count} != {len(classes)}", target="UnionFind")
        return
    if len(c) != n:
        o.violate(PROP, "refinement_broken", f"step {step}: len {len(c)} != {n}", target="UnionFind")
    roots = [c.find(i) for i in range(n)]
    for i in range(n):
        if not (0 <= roots[i] < n) or labels[roots[i]] != labels[i]:
            o.violate(PROP, "refinement_broken", f"step {step}: find({i})={roots[i]} not a member of its class", target="UnionFind")
            return
        if c.find(roots[i]) != roots[i]:
            o.violate(PROP, "refinement_broken", f"step {step}: find not idempotent at {i}", target="UnionFind")
            return
    if n > 40:
        # exact and linear: roots and model labels must be in bijection (every pair then agrees); connected() is spot-checked
        r2l, l2r = {}, {}
        for i in range(n):
            if r2l.setdefault(roots[i], labels[i]) != labels[i] or l2r.setdefault(labels[i], roots[i]) != roots[i]:
                o.violate(PROP, "refinement_broken", f"step {step}: find() puts {i} in the wrong class (root {roots[i]})", target="UnionFind")
                return
        for i in range(0, n, 7):
            j = (i * 31 + 5) % n
            if c.connected(i, j) != (labels[i] == labels[j]):
                o.violate(PROP, "refinement_broken", f"step {step}: connected({i},{j}) != model {labels[i] == labels[j]}", target="UnionFind")
                return
    for i in range(n if n <= 40 else 0):
        for j in range(n):
            same = labels[i] == labels[j]
            if (roots[i] == roots[j]) != same:
                o.violate(PROP, "refinement_broken", f"step {step}: find({i})==find({j}) is {roots[i]==roots[j]}, model {same}", target="UnionFind")
                return
            if c.connected(i, j) != same:
                o.violate(PROP, "refinement_broken", f"step {step}: connected({i},{j}) != model {same}", target="UnionFind")
                return
    got = sorted(sorted(s) for s in c.get_components())
    if got != want:
        o.violate(PROP, "refinement_broken", f"step {step}: get_components {got} != {want}", target="UnionFind")
        return
    if sorted(c.component_sizes()) != sorted(len(s) for s in want):
        o.violate(PROP, "refinement_broken", f"step {step}: component_sizes {c.component_sizes()}", target="UnionFind")
        return
    # queries never change later answers: ask everything again on the same copy
    if c.component_count != len(classes) or sorted(sorted(s) for s in c.get_components()) != want:
        o.violate(PROP, "refinement_broken", f"step {step}: answers changed after queries", target="UnionFind")


def _exec_uf(case, o: Outcome):
    from solvor.utils.data_structures import UnionFind

    n = case["n"]
    uf = UnionFind(n)
    labels = list(range(n))
    merged_before = False
    read_after_merge = False
    _audit_uf(o, uf, labels, -1)
    for step, op in enumerate(case["ops"]):
        name = op[0]
        if name == "union":
            a, b = op[1], op[2]
            want = labels[a] != labels[b]
            got = uf.union(a, b)
            if want:
                la, lb = labels[a], labels[b]
                labels = [la if x == lb else x for x in labels]
                if read_after_merge:
                    o.nontrivial = True
                merged_before = True
            if got is not want:
                o.violate(PROP, "refinement_broken", f"step {step}: union({a},{b}) returned {got!r}, model {want}", target="UnionFind")
        elif name == "find":
            got = uf.find(op[1])
            if not (isinstance(got, int) and 0 <= got < n and labels[got] == labels[op[1]]):
                o.violate(PROP, "refinement_broken", f"step {step}: find({op[1]})={got!r} outside its class", target="UnionFind")
            read_after_merge = read_after_merge or merged_before
        elif name == "connected":
            got = uf.connected(op[1], op[2])
            want = labels[op[1]] == labels[op[2]]
            if got is not want:
                o.violate(PROP, "refinement_broken", f"step {step}: connected({op[1]},{op[2]})={got!r}, model {want}", target="UnionFind")
            read_after_merge = read_after_merge or merged_before
        elif name == "component_count":
            got = uf.component_count
            if got != len(set(labels)):
                o.violate(PROP, "refinement_broken", f"step {step}: component_count={got}, model {len(set(labels))}", target="UnionFind")
        elif name == "component_sizes":
            got = sorted(uf.component_sizes())
            want = sorted(labels.count(x) for x in set(labels))
            if got != want:
                o.violate(PROP, "refinement_broken", f"step {step}: component_sizes={got}, model {want}", target="UnionFind")
            read_after_merge = read_after_merge or merged_before
        elif name == "get_components":
            got = sorted(sorted(s) for s in uf.get_components())
            want = sorted(sorted(i for i, x in enumerate(labels) if x == lab) for lab in set(labels))
            if got != want:
                o.violate(PROP, "refinement_broken", f"step {step}: get_components={got}, model {want}", target="UnionFind")
            read_after_merge = read_after_merge or merged_before
        elif name == "len":
            got = len(uf)
            if got != n:
                o.violate(PROP, "refinement_broken", f"step {step}: len={got}, model {n}", target="UnionFind")
        elif name == "consume_components":
            comps = uf.get_components()
            got = sorted(sorted(s) for s in comps)
            for s in comps:
                s.clear()  # e.g. used as pop-until-empty work lists; what was returned belongs to the caller
            sizes = uf.component_sizes()
            sizes.clear()
            read_after_merge = read_after_merge or merged_before
        else:
            raise ValueError(name)
        o.trace.append([name, repr(got)])
        if o.violations:
            return
        if not case.get("sparse_audit") or step == len(case["ops"]) - 1 or step % 97 == 96:
            _audit_uf(o, uf, labels, step)
        if o.violations:
            return
    o.steps = len(case["ops"])


def _exec_fw(case, o: Outcome):
    from solvor.utils.data_structures import FenwickTree

    init = case["init"]
    src = init if isinstance(init, int) else list(init)  # the caller's own list object, kept and reused below
    ft = FenwickTree(src)
    model = [0] * init if isinstance(init, int) else list(init)
    if case.get("exact"):
        model = [Fraction(v) for v in model]  # exact reference (a Fraction compares exactly with a float)
        if not _all_ranges_exact(model):
            return  # outside the family (only reachable by shrinking): some range sum is not a double, nothing is claimed
    n = len(model)
    if not isinstance(init, int) and src != list(init):
        o.violate(PROP, "caller_list_modified", f"FenwickTree(values) changed the caller's list from {list(init)} to {src}", target="FenwickTree")
        return
    queried = False
    updated_after_query = False

    def audit(step):
        c = copy.deepcopy(ft)
        acc = 0
        for i in range(n):
            acc += model[i]
            if c.prefix(i) != acc:
                o.violate(PROP, "refinement_broken", f"step {step}: prefix({i})={c.prefix(i)!r}, model {acc!r}", target="FenwickTree")
                return
        pairs = [(l, r) for l in range(n) for r in range(l, n)] if n <= 40 else \
            [(l, min(n - 1, l + (l * 13) % 50)) for l in range(0, n, 3)] + [(0, n - 1), (n - 1, n - 1)]
        for l, r in pairs:
                if c.range_sum(l, r) != sum(model[l:r + 1]):
                    o.violate(PROP, "refinement_broken", f"step {step}: range_sum({l},{r})={c.range_sum(l, r)!r}, model {sum(model[l:r+1])!r}", target="FenwickTree")
                    return
        if len(c) != n:
            o.violate(PROP, "refinement_broken", f"step {step}: len={len(c)} model {n}", target="FenwickTree")

    audit(-1)
    if o.violations:
        return
    for step, op in enumerate(case["ops"]):
        name = op[0]
        got = None
        if name == "update":
            ft.update(op[1], op[2])
            model[op[1]] += Fraction(op[2]) if case.get("exact") else op[2]
            if case.get("exact") and not _all_ranges_exact(model):
                return  # the history left the family (shrinking artefact): stop judging here
            if queried:
                updated_after_query = True
        elif name == "prefix":
            got = ft.prefix(op[1])
            want = sum(model[: op[1] + 1])
            if got != want:
                o.violate(PROP, "refinement_broken", f"step {step}: prefix({op[1]})={got!r}, model {want!r}", target="FenwickTree")
            if updated_after_query:
                o.nontrivial = True
            queried = True
        elif name == "range_sum":
            got = ft.range_sum(op[1], op[2])
            want = sum(model[op[1]: op[2] + 1])
            if got != want:
                o.violate(PROP, "refinement_broken", f"step {step}: range_sum({op[1]},{op[2]})={got!r}, model {want!r}", target="FenwickTree")
            if updated_after_query:
                o.nontrivial = True
            queried = True
        elif name == "len":
            got = len(ft)
            if got != n:
                o.violate(PROP, "refinement_broken", f"step {step}: len={got}, model {n}", target="FenwickTree")
        elif name == "second_tree":
            # a second tree built from the caller's same list object must see the same initial values,
            # and must not share state with the first one
            if not isinstance(init, int):
                if src != list(init):
                    o.violate(PROP, "caller_list_modified", f"step {step}: the caller's list changed from {list(init)} to {src} after "
                              f"updates on the tree built from it", target="FenwickTree")
                    return
                other = FenwickTree(src)
                acc = 0
                for i in range(n):
                    acc += Fraction(init[i]) if case.get("exact") else init[i]
                    if other.prefix(i) != acc:
                        o.violate(PROP, "refinement_broken", f"step {step}: a second FenwickTree built from the same list answers "
                                  f"prefix({i})={other.prefix(i)!r}, initial values give {acc!r}", target="FenwickTree")
                        return
                if n:
                    other.update(0, 1)  # must not leak into the first tree (audited below)
        else:
            raise ValueError(name)
        o.trace.append([name, repr(got)])
        if o.violations:
            return
        if case.get("sparse_audit"):
            if step == len(case["ops"]) - 1 or step % 61 == 60:
                audit(step)
        elif name == "second_tree" or step % 4 == 3 or step == len(case["ops"]) - 1:
            audit(step)
            if o.violations:
                return
    o.steps = len(case["ops"])


def execute(case) -> Outcome:
    o = Outcome()
    o.trace.append(case["kind"])
    try:
        if case["kind"] == "uf":
            _exec_uf(case, o)
        else:
            _exec_fw(case, o)
    except (IndexError, KeyError, TypeError, ValueError, AttributeError, RecursionError, ZeroDivisionError) as e:
        o.violate(PROP, f"exception:{type(e).__name__}", f"{e}", target="UnionFind" if case["kind"] == "uf" else "FenwickTree")
    return o


def shrink(case):
    yield from shr.list_shrinks(case, ("ops",))
    if case["kind"] == "uf":
        n = case["n"]
        used = [x for op in case["ops"] for x in op[1:]]
        hi = max(used) + 1 if used else 0
        if hi < n:
            yield shr.with_path(case, ("n",), hi)
        # renumber indices downwards
        for old in sorted(set(used), reverse=True):
            for new in range(old):
                if new not in used:
                    c = copy.deepcopy(case)
                    for op in c["ops"]:
                        for k in range(1, len(op)):
                            if op[k] == old:
                                op[k] = new
                    yield c
                    break
    else:
        init = case["init"]
        n = init if isinstance(init, int) else len(init)
        used = []
        for op in case["ops"]:
            if op[0] == "update":
                used.append(op[1])
            elif op[0] in ("prefix", "range_sum"):
                used.extend(op[1:])
        hi = max(used) + 1 if used else 0
        if hi < n:
            yield shr.with_path(case, ("init",), hi if isinstance(init, int) else init[:hi])
        if not isinstance(init, int):
            for i, v in enumerate(init):
                if v != 0:
                    c = copy.deepcopy(case)
                    c["init"][i] = 0
                    yield c
        for k, op in enumerate(case["ops"]):
            if op[0] == "update" and op[2] not in (0, 1):
                c = copy.deepcopy(case)
                c["ops"][k][2] = 1
                yield c
