"""C15 - cut vertices, bridges, k-cores, PageRank and Louvain obey their definitions.

Seam S5 (thin): kcore_decomposition keeps `set`s of caller labels (adjacency sets, degree buckets) and follows their
hash order (`buckets[k].pop()`, `for w in adj[v]`); with string labels the peeling order differs between processes.
Runs execute in worker interpreters with different PYTHONHASHSEEDs and random string labels.  Louvain's `while improved`
has no iteration cap: termination is judged by a deterministic step budget.  Everything else in the statement is decided
by the same runs against oracles by definition (differential part, DESIGN 3)."""

from __future__ import annotations

import copy
from fractions import Fraction

import budget
import shrink as shr
from core import Outcome, solvor_mod

PROP = "C15"
RULE = ("each run = one graph (<=8 nodes; random string labels or ints; asymmetric neighbour lists, self loops, isolated nodes, "
        "several components, duplicate neighbours; neighbour and node order permuted) given to one of articulation_points, bridges, "
        "kcore_decomposition, kcore(k), pagerank(damping, tol, max_iter), louvain(resolution) in a worker with its own "
        "PYTHONHASHSEED; oracle by definition on the symmetrised simple graph (directed multigraph for pagerank); "
        "non-trivial: the graph has a cycle and two different degrees; distinct = digest of (function, graph, answer)")
REAL = ["solvor.articulation.articulation_points/bridges", "solvor.kcore.kcore_decomposition/kcore", "solvor.pagerank.pagerank",
        "solvor.community.louvain"]
STUB = ["neighbour call-back (a fixed adjacency table per run)"]
ASSUMPTIONS = ["labels handed to bridges are mutually comparable (its documented (u, v) with u < v output); the other functions also get frozenset and None labels", "neighbours lie inside the node set"]
TIERS = {
    "quick": {"runs": 288000, "block": 6000, "budget_s": 75, "hash_seeds": 16},
    "thorough": {"runs": 40000000, "block": 10000, "budget_s": 900, "hash_seeds": 64},
}
FUNCS = ["articulation_points", "bridges", "kcore_decomposition", "kcore", "pagerank", "louvain"]
SOLVER_ERRORS = (UnboundLocalError, IndexError, KeyError, TypeError, ValueError, ZeroDivisionError, OverflowError, AttributeError,
                 RecursionError, AssertionError, NameError)
STEP_LIMIT = 1_000_000
ALPHABET = "abcdefghijklmnopqrstuvwxyzABCDEFGHIJKLMNOPQRSTUVWXYZ0123456789_"


def generate(rng, tier):
    n = rng.randrange(0, 9 if tier == "quick" else 11)
    fn = rng.choice(FUNCS)
    if fn in ("articulation_points", "bridges") and rng.random() < 0.004:
        # hundreds of nodes in many small components (the definitional oracle works component by component)
        clusters = []
        adj = []
        while len(adj) < rng.choice([520, 700, 1100]):
            k = rng.randrange(2, 7)
            base = len(adj)
            local = [[] for _ in range(k)]
            for u in range(k):
                for v in range(u + 1, k):
                    if rng.random() < 0.5 or v == u + 1:
                        if rng.random() < 0.5:
                            local[u].append(base + v)
                        else:
                            local[v].append(base + u)
            adj.extend(local)
            clusters.append([base, k])
        n = len(adj)
        order = list(range(n))
        if rng.random() < 0.5:
            rng.shuffle(order)
        return {"fn": fn, "n": n, "adj": adj, "labels": list(range(n)), "order": order, "kw": {}, "fresh": False, "clusters": clusters}
    if fn in ("articulation_points", "bridges") and rng.random() < 0.0008:
        # a deep tree: one path of a thousand or more nodes with a few pendant leaves, walked from one end.  In a tree every
        # node of degree >= 2 is a cut vertex and every edge a bridge (by definition, no search needed)
        n_path = rng.choice([1100, 1100, 2500])
        adj = [[] for _ in range(n_path)]
        for i in range(n_path - 1):
            if rng.random() < 0.7:
                adj[i].append(i + 1)
            else:
                adj[i + 1].append(i)
        for _ in range(rng.randrange(0, 6)):
            adj.append([rng.randrange(n_path)])
        n = len(adj)
        return {"fn": fn, "n": n, "adj": adj, "labels": list(range(n)), "order": list(range(n)), "kw": {}, "fresh": False, "tree": True}
    if fn == "louvain" and rng.random() < 0.002:
        # a few thousand edges: the last improving pass may gain next to nothing
        n = rng.choice([800, 2000])
        adj = [[] for _ in range(n)]
        for _ in range(3 * n):
            u, v = rng.randrange(n), rng.randrange(n)
            if u != v:
                adj[u].append(v)
        return {"fn": fn, "n": n, "adj": adj, "labels": list(range(n)), "order": list(range(n)), "kw": {"resolution": rng.choice([1.0, 1.0, 0.5, 2.0])},
                "fresh": False}
    if fn == "louvain" and rng.random() < 0.5:
        n = rng.randrange(6, 13)  # local-move cycles need a little room (the tie cycle of 10.3 was found at n = 10)
    if fn == "pagerank" and rng.random() < 0.12:
        # funnels: m equally long chains that all end in one hub which links back to every chain head.  A perturbation travels
        # down the chains in lock step (every single score changes by less than tol) and arrives at the hub all at once
        m, ln = rng.randrange(8, 41), rng.randrange(1, 5)
        n = m * ln + 1
        adj = [[] for _ in range(n)]
        for i in range(m):
            for j in range(ln):
                adj[i * ln + j].append(i * ln + j + 1 if j + 1 < ln else n - 1)
            adj[n - 1].append(i * ln)
        for _ in range(rng.choice([0, 0, 1, 3])):
            adj[rng.randrange(n)].append(rng.randrange(n))
        labels = rng.sample(range(0, 5000), n)
        order = list(range(n))
        if rng.random() < 0.5:
            rng.shuffle(order)
        return {"fn": fn, "n": n, "adj": adj, "labels": labels, "order": order, "fresh": False,
                "kw": {"damping": rng.choice([0.5, 0.85, 0.99]), "tol": rng.choice([2e-2, 1e-3, 1e-4, 1e-6]), "max_iter": rng.choice([100, 5000])}}
    if fn == "pagerank" and rng.random() < 0.35:
        # larger, skewed graphs (hubs and spokes): the stopping rule is only stressed when many small changes add up
        n = rng.randrange(12, 70)
        hubs = rng.sample(range(n), rng.choice([1, 1, 2, 3]))
        adj = [[] for _ in range(n)]
        back = rng.choice([0.0, 0.5, 1.0])
        for v in range(n):
            for h in hubs:
                if v != h and rng.random() < 0.9:
                    adj[v].append(h)
                if v != h and rng.random() < back:
                    adj[h].append(v)
            if rng.random() < 0.1:
                adj[v].append(rng.randrange(n))
        labels = rng.sample(range(0, 5000), n)
        order = list(range(n))
        rng.shuffle(order)
        return {"fn": fn, "n": n, "adj": adj, "labels": labels, "order": order, "fresh": False,
                "kw": {"damping": rng.choice([0.5, 0.85, 0.99]), "tol": rng.choice([1e-3, 1e-6, 1e-9]), "max_iter": rng.choice([100, 5000])}}
    dens = rng.choice([0.15, 0.3, 0.5, 0.8])
    sym = rng.random() < 0.4
    adj = [[] for _ in range(n)]
    for u in range(n):
        for v in range(n):
            if u < v and rng.random() < dens:
                x = rng.random()
                if sym or x < 0.3:
                    adj[u].append(v)
                    adj[v].append(u)
                elif x < 0.65:
                    adj[u].append(v)
                else:
                    adj[v].append(u)
        if rng.random() < 0.12:
            adj[u].append(u)  # self loop
    for u in range(n):
        if adj[u] and rng.random() < 0.2:
            adj[u].append(rng.choice(adj[u]))  # duplicate neighbour
        rng.shuffle(adj[u])
    if n and rng.random() < 0.2:  # isolate a node
        z = rng.randrange(n)
        adj[z] = []
        adj = [[w for w in a if w != z] for a in adj]
    if rng.random() < 0.75:
        labels = set()
        while len(labels) < n:
            labels.add("".join(rng.choice(ALPHABET) for _ in range(rng.randrange(1, 6))))
        labels = sorted(labels)
        rng.shuffle(labels)
    elif rng.random() < 0.5:
        labels = rng.sample(range(0, 40), n)
    elif rng.random() < 0.5:
        labels = rng.sample(range(1000, 5000), n)  # ints outside the small-int cache
    else:
        labels = [list(t) for t in rng.sample([(a, b) for a in range(4) for b in range(4)], n)]  # (row, col) style labels
    if fn != "bridges" and n and rng.random() < 0.1:
        # labels that are hashable but not totally ordered (only bridges documents an ordering of its labels):
        # frozensets, whose `<` is the subset relation, or None next to ordinary labels
        if rng.random() < 0.5 and n <= 15:
            subsets = [[i for i in range(4) if (b >> i) & 1] for b in range(1, 16)]
            labels = [{"fs": s} for s in rng.sample(subsets, n)]
        else:
            labels[rng.randrange(n)] = None
    order = list(range(n))
    rng.shuffle(order)
    # fresh: the neighbour call-back hands out equal but not identical label objects (labels computed on the fly)
    case = {"fn": fn, "n": n, "adj": adj, "labels": labels, "order": order, "kw": {}, "fresh": rng.random() < 0.5,
            # the signatures take Iterables: a one-shot iterator / generator is as legal as a list
            "nodes_as": rng.choice(["list", "list", "iter", "gen", "tuple"]), "nbrs_as": rng.choice(["list", "list", "iter", "gen"]),
            # the same call-back object and the same node sequence 0..n-1 as earlier cases of this worker, over a different graph
            "shared_callable": rng.random() < 0.2}
    if fn == "kcore":
        case["kw"] = {"k": rng.randrange(-1, 6)}
    elif fn == "pagerank":
        case["kw"] = {"damping": rng.choice([0.5, 0.85, 0.99, 0.125, 0.3]), "tol": rng.choice([1e-3, 1e-6, 1e-10, 0.0]),
                      "max_iter": rng.choice([0, 1, 3, 100, 5000])}
        if case["kw"]["tol"] == 0.0:
            case["kw"]["max_iter"] = rng.choice([1, 3, 100])
    elif fn == "louvain":
        case["kw"] = {"resolution": rng.choice([1.0, 1.0, 0.25, 0.5, 2.0, 3.0])}
    return case


# ------------------------------------------------------------------------------------------- oracles by definition


def sym_edges(case):
    es = set()
    for u, a in enumerate(case["adj"]):
        for v in a:
            if u != v:
                es.add((min(u, v), max(u, v)))
    return es


def n_components(nodes, edges):
    lab = {v: v for v in nodes}

    def find(x):
        while lab[x] != x:
            x = lab[x]
        return x

    for u, v in edges:
        if u in lab and v in lab:
            ru, rv = find(u), find(v)
            if ru != rv:
                lab[ru] = rv
    return len({find(v) for v in nodes})


def _sub(case, base, k):
    return {"n": k, "adj": [[w - base for w in case["adj"][base + u]] for u in range(k)]}


def ref_articulation(case):
    if case.get("tree"):
        deg = [0] * case["n"]
        for u, v in sym_edges(case):
            deg[u] += 1
            deg[v] += 1
        return {v for v in range(case["n"]) if deg[v] >= 2}
    if case.get("clusters"):
        return {base + v for base, k in case["clusters"] for v in ref_articulation(_sub(case, base, k))}
    n = case["n"]
    es = sym_edges(case)
    base = n_components(range(n), es)
    out = set()
    for v in range(n):
        rest = [u for u in range(n) if u != v]
        if n_components(rest, [e for e in es if v not in e]) > base:
            out.add(v)
    return out


def ref_bridges(case):
    if case.get("tree"):
        return set(sym_edges(case))
    if case.get("clusters"):
        return {(base + u, base + v) for base, k in case["clusters"] for u, v in ref_bridges(_sub(case, base, k))}
    n = case["n"]
    es = sym_edges(case)
    base = n_components(range(n), es)
    return {e for e in es if n_components(range(n), es - {e}) > base}


def ref_core(case):
    n = case["n"]
    es = sym_edges(case)
    core = {}
    alive = set(range(n))
    k = 0
    while alive:
        while True:
            deg = {v: sum(1 for e in es if v in e and e[0] in alive and e[1] in alive) for v in alive}
            low = [v for v in alive if deg[v] < k + 1]
            if not low:
                break
            for v in low:
                core[v] = k
                alive.discard(v)
        k += 1
    return core


def ref_pagerank(case):
    n = case["n"]
    d = Fraction(case["kw"]["damping"])
    out = [len(a) for a in case["adj"]]
    # M[v][u] = probability to move u -> v
    M = [[Fraction(0)] * n for _ in range(n)]
    for u, a in enumerate(case["adj"]):
        if out[u] == 0:
            for v in range(n):
                M[v][u] = Fraction(1, n)
        else:
            for v in a:
                M[v][u] += Fraction(1, out[u])
    A = [[(Fraction(1) if i == j else Fraction(0)) - d * M[i][j] for j in range(n)] + [(1 - d) / n] for i in range(n)]
    for c in range(n):
        p = next(r for r in range(c, n) if A[r][c] != 0)
        A[c], A[p] = A[p], A[c]
        inv = 1 / A[c][c]
        A[c] = [x * inv for x in A[c]]
        for r in range(n):
            if r != c and A[r][c] != 0:
                f = A[r][c]
                A[r] = [x - f * y for x, y in zip(A[r], A[c])]
    return [A[i][n] for i in range(n)]


def residual_ratio(case, s):
    """max_i |s_i - F(s)_i| / tol for one synchronous sweep F of the damped equation (uniform dangling redistribution)."""
    n = case["n"]
    d = case["kw"].get("damping", 0.85)
    tol = case["kw"].get("tol", 1e-6)
    out = [len(a) for a in case["adj"]]
    new = [(1.0 - d) / n] * n
    dang = sum(s[u] for u in range(n) if out[u] == 0)
    for u, a in enumerate(case["adj"]):
        for v in a:
            new[v] += d * s[u] / out[u]
    new = [x + d * dang / n for x in new]
    res = max(abs(a - b) for a, b in zip(new, s))
    if tol == 0:
        return 0.0 if res == 0 else float("inf")  # OPTIMAL at tol = 0 claims an exact fixed point
    return res / tol


def modularity(case, parts, resolution):
    es = sym_edges(case)
    m = len(es)
    if m == 0:
        return 0.0
    deg = [0] * case["n"]
    for u, v in es:
        deg[u] += 1
        deg[v] += 1
    q = 0.0
    for p in parts:
        inside = sum(1 for u, v in es if u in p and v in p)
        dc = sum(deg[v] for v in p)
        q += inside / m - resolution * (dc / (2 * m)) ** 2
    return q


# ------------------------------------------------------------------------------------------- execution


_SHARED_TABLE: dict = {}


def _shared_lookup(v):
    """ONE call-back object for many graphs (think `graph.neighbors` of a graph object that changes between analyses)."""
    return _SHARED_TABLE[v]


def execute(case) -> Outcome:
    o = Outcome()
    budget.install(["solvor.articulation", "solvor.kcore", "solvor.pagerank", "solvor.community"])
    if case.get("shared_callable"):
        case = dict(case, labels=list(range(case["n"])), order=list(range(case["n"])), fresh=False, nodes_as="list", nbrs_as="list")
    n, fn = case["n"], case["fn"]
    L = [tuple(l) if isinstance(l, list) else (frozenset(l["fs"]) if isinstance(l, dict) else l) for l in case["labels"]]
    idx = {L[i]: i for i in range(n)}
    nodes = [L[i] for i in case["order"]]
    table = {L[u]: [L[v] for v in a] for u, a in enumerate(case["adj"])}
    if case.get("fresh"):
        def clone(x):
            if isinstance(x, str):
                return (x + "x")[:-1]
            if isinstance(x, tuple):
                return tuple(list(x))
            if isinstance(x, frozenset):
                return frozenset(list(x))
            if x is None:
                return None
            return int(str(x))
        lookup = lambda v: [clone(w) for w in table[v]]
    else:
        lookup = lambda v: table[v]
    if case.get("shared_callable"):
        _SHARED_TABLE.clear()
        _SHARED_TABLE.update(table)
        lookup = _shared_lookup
    asym = any((u not in case["adj"][v]) for u, a in enumerate(case["adj"]) for v in a if v != u)
    key = dict(target=fn, asymmetric=asym)
    mod = {"articulation_points": "articulation", "bridges": "articulation", "kcore_decomposition": "kcore", "kcore": "kcore",
           "pagerank": "pagerank", "louvain": "community"}[fn]
    f = getattr(solvor_mod(mod), fn)
    na, ba = case.get("nodes_as", "list"), case.get("nbrs_as", "list")
    nodes_arg = {"list": lambda: nodes, "tuple": lambda: tuple(nodes), "iter": lambda: iter(nodes), "gen": lambda: (x for x in nodes)}[na]()
    if ba != "list":
        base_lookup = lookup
        lookup = (lambda v: iter(base_lookup(v))) if ba == "iter" else (lambda v: (w for w in base_lookup(v)))
    try:
        m_edges = sum(len(a) for a in case["adj"])
        limit = STEP_LIMIT + 4000 * (case["n"] + m_edges)  # small cases keep the flat budget; larger ones scale with size
        with budget.steps(limit) as b:
            if fn == "kcore":
                res = f(nodes_arg, lookup, case["kw"]["k"])
            else:
                res = f(nodes_arg, lookup, **case["kw"])
    except budget.StepBudgetExceeded:
        o.violate(PROP, "no_return", f"{fn} did not return within {limit} events", **key)
        return o
    except SOLVER_ERRORS as e:
        o.violate(PROP, f"exception:{type(e).__name__}", f"{fn} raised {type(e).__name__}: {e}", **key)
        return o
    o.steps = b.count
    sol = res.solution
    if fn == "articulation_points":
        want = {L[v] for v in ref_articulation(case)}
        if set(sol) != want:
            o.violate(PROP, "wrong_cut_vertices", f"returned {sorted(sol, key=repr)}, by definition {sorted(want, key=repr)} (adjacency {table})", **key)
        o.trace.append(sorted(idx[v] for v in sol if v in idx))
    elif fn == "bridges":
        want = sorted(tuple(sorted((L[u], L[v]))) for u, v in ref_bridges(case))
        got = sorted(tuple(e) for e in sol)
        if got != want:
            o.violate(PROP, "wrong_bridges", f"returned {got}, by definition {want} (adjacency {table})", **key)
        o.trace.append(sorted(tuple(sorted(idx.get(x, -1) for x in e)) for e in sol))
    elif fn == "kcore_decomposition":
        want = {L[v]: c for v, c in ref_core(case).items()}
        if dict(sol) != want:
            o.violate(PROP, "wrong_core_numbers", f"returned {dict(sol)}, by definition {want} (adjacency {table})", **key)
        o.trace.append(sorted((idx.get(v, -1), c) for v, c in sol.items()))
    elif fn == "kcore":
        want = {L[v] for v, c in ref_core(case).items() if c >= case["kw"]["k"]}
        if set(sol) != want:
            o.violate(PROP, "wrong_kcore", f"kcore(k={case['kw']['k']}) returned {sorted(sol, key=repr)}, by definition {sorted(want, key=repr)}", **key)
        o.trace.append(sorted(idx.get(v, -1) for v in sol))
    elif fn == "pagerank":
        if n:
            if set(sol) != set(L) or any(s < 0 for s in sol.values()) or abs(sum(sol.values()) - 1.0) > 1e-9:
                o.violate(PROP, "not_a_distribution", f"scores {sol} (sum {sum(sol.values())!r})", **key)
            elif res.status.name == "OPTIMAL" and residual_ratio(case, [sol[L[i]] for i in range(n)]) > 1.0 + 1e-13 / max(case["kw"].get("tol", 1e-6), 1e-300):
                # "to within the tolerance", literally: the residual of one sweep of the damped equation is at most tol.  The
                # iteration contracts in the L1 norm, so a run that stops on a total change below tol leaves a residual below
                # damping * tol.  (Until the repair of the stopping rule - largest single change - this rule was 10 x tol; funnel
                # graphs showed residuals of 15-1600 x tol with OPTIMAL.)
                o.violate(PROP, "equation_not_satisfied", f"OPTIMAL but the residual of the damped equation is "
                          f"{residual_ratio(case, [sol[L[i]] for i in range(n)]):.2f} x tol", **key)
            elif res.status.name == "OPTIMAL" and n <= 10:
                exact = ref_pagerank(case)
                d, tol = case["kw"]["damping"], case["kw"]["tol"]
                bound = tol * d / (1 - d) + 1e-12
                worst = max(abs(sol[L[i]] - float(exact[i])) for i in range(n))
                if worst > bound:
                    o.violate(PROP, "equation_not_satisfied", f"OPTIMAL but a score is {worst!r} away from the solution of the damped equation "
                              f"(bound tol*d/(1-d) = {bound!r})", **key)
        o.trace.append([res.status.name, [repr(sol[L[i]]) for i in range(n)] if n and set(sol) == set(L) else None])
    else:  # louvain
        parts = [set(p) for p in sol]
        flat = [v for p in parts for v in p]
        if sorted(flat, key=repr) != sorted(L, key=repr) or any(not p for p in parts):
            o.violate(PROP, "not_a_partition", f"communities {parts} are not a partition of {L}", **key)
        else:
            q = modularity(case, [{idx[v] for v in p} for p in parts], case["kw"]["resolution"])
            if abs(q - res.objective) > 1e-9:
                o.violate(PROP, "modularity_mismatch", f"reported modularity {res.objective!r}, the partition {parts} has {q!r}", **key)
        o.trace.append(sorted(sorted(idx.get(v, -1) for v in p) for p in parts))
    es = sym_edges(case)
    deg = [sum(1 for e in es if v in e) for v in range(n)]
    o.nontrivial = len(set(deg)) >= 2 and n_components(range(n), es) + len(es) > n  # has a cycle
    return o


def shrink(case):
    n = case["n"]
    # drop a node (highest index first)
    for z in range(n - 1, -1, -1):
        c = copy.deepcopy(case)
        c["n"] = n - 1
        c["adj"] = [[(w if w < z else w - 1) for w in a if w != z] for u, a in enumerate(case["adj"]) if u != z]
        c["labels"] = [l for i, l in enumerate(case["labels"]) if i != z]
        c["order"] = [(i if i < z else i - 1) for i in case["order"] if i != z]
        yield c
    for u in range(n):
        if case["adj"][u]:
            for cand in shr.drop_chunks(case["adj"][u]):
                yield shr.with_path(case, ("adj", u), cand)
    if case["order"] != list(range(n)):
        yield shr.with_path(case, ("order",), list(range(n)))
    if case.get("fresh"):
        yield shr.with_path(case, ("fresh",), False)
    for k in ("nodes_as", "nbrs_as"):
        if case.get(k, "list") != "list":
            yield shr.with_path(case, (k,), "list")
    if any(isinstance(l, str) for l in case["labels"]) and case["labels"] != [f"n{i}" for i in range(n)]:
        yield shr.with_path(case, ("labels",), [f"n{i}" for i in range(n)])
