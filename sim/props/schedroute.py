"""C18 - job-shop schedules and VRPTW routes are structurally valid and honestly scored.

Seams: S4 operator histories on the mutable VRPState (eight exported destroy/repair operators in any order),
S1 RNG (faithful / unseeded / scripted), S3 cancellation, S2 clock.  An independent evaluator (no solvor code)
recomputes arrival times, violations and the weighted objective and checks the four bookkeeping invariants
after every operator, and - through a wrapper around solvor.vrp.vrp_objective - on every candidate ALNS evaluates."""

from __future__ import annotations

import copy
import math

import seams
import shrink as shr
from core import Outcome, fnum, solvor_mod

PROP = "C18"
RULE = ("three families: (ops) a seeded history of 1-25 exported VRP destroy/repair operators applied to a VRPState built from a "
        "generated instance (3-9 customers, 1-4 vehicles, time windows, capacities, required_vehicles 1-3), invariants I1-I4 + "
        "input-not-mutated checked after every operator; (vrptw) solve_vrptw end-to-end with seed/None, small budgets, cancel at a "
        "tick or simulated time limit, I1-I4 on every evaluated candidate and the final objective recomputed; (jobshop) "
        "solve_job_shop over rules/seeds/max_iter/local_search/cancel with a schedule validator. non-trivial: ops history with a "
        "destroy followed by a repair while a multi-vehicle customer exists / vrptw run with >=3 evaluated candidates / job shop "
        "with local search evaluating >=1 swap; distinct = digest of the per-step state summaries")
REAL = ["solvor.vrp (VRPState, random/worst/related/route/sync_removal, greedy/regret/sync_aware_insertion, vrp_objective, "
        "solve_vrptw)", "solvor.lns.alns", "solvor.job_shop.solve_job_shop", "solvor.utils.helpers.report_progress/default_progress"]
STUB = ["random.Random (SimRandom)", "time.perf_counter (SimClock)"]
ASSUMPTIONS = ["customer ids are 1..n in list order (the module indexes customers by id)", "finite coordinates and demands"]
TIERS = {
    "quick": {"runs": 48000, "block": 1000, "budget_s": 75},
    "thorough": {"runs": 10000000, "block": 2000, "budget_s": 900},
}
RNG_MODULES = ["solvor.vrp", "solvor.lns", "solvor.job_shop"]
INF = float("inf")

DESTROY = ["random_removal", "worst_removal", "related_removal", "route_removal", "sync_removal"]
REPAIR = ["greedy_insertion", "regret_insertion", "sync_aware_insertion"]


# ------------------------------------------------------------------------------------------- generation


def gen_instance(rng, big=False):
    n = rng.randrange(1, 12 if big else 10)
    nv = rng.randrange(1, 5)
    if rng.random() < 0.04:
        n, nv = rng.randrange(15, 31), rng.randrange(3, 8)  # a few dozen customers: long routes, many multi-vehicle customers
    if rng.random() < 0.03:  # boundary sizes: no customer at all / no vehicle at all
        n, nv = rng.choice([(0, nv), (n, 0), (0, 0)])
    multi_p = rng.choice([0.0, 0.2, 0.4, 0.8])
    custs = []
    for i in range(1, n + 1):
        tw0 = rng.choice([0, 0, 0, rng.randrange(0, 25)])
        width = rng.choice([None, None, 5, 15, 40, 0])
        req = 1
        if rng.random() < multi_p:
            req = rng.choice([2, 2, 3])
        custs.append([i, rng.randrange(-10, 11), rng.randrange(-10, 11), rng.choice([0, 1, 2, 3, 5]), tw0,
                      None if width is None else tw0 + width, rng.choice([0, 0, 1, 3]), req])
    if rng.random() < 0.3:  # dyadic (non-integer) coordinates, demands, windows and service times
        for c in custs:
            c[1] += rng.choice([0.25, 0.5, 0.75])
            c[2] -= rng.choice([0.25, 0.5])
            c[3] += rng.choice([0, 0.5])
            c[4] += rng.choice([0, 0.25])
            if c[5] is not None:
                c[5] += rng.choice([0.25, 0.5])
            c[6] += rng.choice([0, 0.5])
    depot = [rng.randrange(-3, 4), rng.randrange(-3, 4)]
    y = rng.random()
    if y < 0.08 and custs:
        # nearly coincident geometry: lattice points moved by 2^-10 .. 2^-24, so that paths of equal length become paths
        # whose lengths (and the arrival times at a shared customer) differ by 1e-3 .. 1e-8 instead of 0
        for c in custs:
            c[1] += rng.choice([-1, 0, 1]) * 2.0 ** -rng.choice([10, 14, 20, 24])
            c[2] += rng.choice([-1, 0, 1]) * 2.0 ** -rng.choice([10, 14, 20, 24])
    elif y < 0.12 and len(custs) >= 2:
        # customers strung along one ray from the depot, a multi-vehicle customer at the far end, stops in between a hair off
        # the line and without service time: a vehicle that detours through them arrives a hair later than one driving straight
        dx, dy = rng.choice([(1, 0), (0, 1), (1, 1), (3, 4), (-1, 2)])
        order = list(range(len(custs)))
        rng.shuffle(order)
        for rank, i in enumerate(order):
            c = custs[i]
            t = rank + 1
            off = rng.choice([0, 1, -1]) * 2.0 ** -rng.choice([8, 10, 12, 20])
            c[1], c[2] = depot[0] + dx * t - dy * off, depot[1] + dy * t + dx * off
            c[4], c[5], c[6] = 0, None, 0
        far = custs[order[-1]]
        far[7] = rng.choice([2, 2, 3])
    cap_mode = rng.choice(["inf", "inf", "loose", "tight", "none_fits"])
    vehs = []
    for v in range(nv):
        cap = {"inf": None, "loose": 12, "tight": rng.choice([3, 5, 6]), "none_fits": 0}[cap_mode]
        vehs.append([cap])
    return {"customers": custs, "vehicles": vehs, "depot": depot}


def gen_op(rng):
    name = rng.choice(DESTROY + REPAIR + REPAIR[:2])
    op = {"op": name}
    if name in ("random_removal", "worst_removal", "related_removal"):
        op["degree"] = rng.choice([0.1, 0.2, 0.3, 0.5, 1.0])
    elif name == "route_removal":
        op["n_routes"] = rng.choice([1, 1, 2, 3])
    elif name == "regret_insertion":
        op["k"] = rng.choice([1, 2, 3])
    return op


def generate(rng, tier):
    big = tier == "thorough"
    x = rng.random()
    if x < 0.5:
        case = {"kind": "ops", "inst": gen_instance(rng, big), "init": rng.choice(["empty", "greedy", "sync", "regret"]),
                "seed": rng.choice([0, 1, 2, 12345]), "rng": seams.gen_rng_case(rng, 0.3, 150),
                "ops": [gen_op(rng) for _ in range(rng.randrange(1, 40 if big else 26))]}
        return case
    if x < 0.75:
        case = {"kind": "vrptw", "inst": gen_instance(rng, big), "seed": rng.choice([None, None, 0, 1, 42]),
                "rng": seams.gen_rng_case(rng, 0.25, 300), "max_iter": rng.choice([0, 1, 3, 10, 30, 60]),
                "max_no_improve": rng.choice([1, 5, 500]), "interval": rng.choice([0, 1, 1, 2, 5]),
                "weights": rng.choice([None, None, {"distance_weight": 2.0, "vehicle_weight": 10.0, "tw_penalty": 7.0,
                                                     "capacity_penalty": 3.0, "sync_penalty": 11.0}]),
                "clock": seams.gen_clock_case(rng, 80), "as_tuples": rng.random() < 0.3}
        y = rng.random()
        if y < 0.45 or case["interval"] == 0:
            case["cancel"] = {"kind": "never"}
        elif y < 0.85:
            case["cancel"] = {"kind": "tick", "frac": rng.random(), "mode": rng.choice(["first", "last", "frac"])}
        else:
            case["cancel"] = {"kind": "time_limit", "frac": rng.random()}
            if case["clock"]["per_eval"] == 0.0:
                case["clock"]["per_eval"] = 0.01
        return case
    nj = rng.randrange(1, 6) if rng.random() > 0.02 else 0
    nm = rng.randrange(1, 5)
    machines = rng.sample(range(0, 8), nm)  # gaps in machine indices
    if rng.random() < 0.03:
        # "any machine indices": labels are names, not sizes (plant codes, ids) - far beyond anything one could allocate per label
        base = rng.choice([2 ** 60, 2 ** 63, 2 ** 64 + 12345])
        machines = [base + 7 * k for k in machines]
    jobs = []
    for _ in range(nj):
        jobs.append([[rng.choice(machines), rng.choice([0, 0, 1, 2, 3, 5, 9])] for _ in range(rng.randrange(1, 6))])
    case = {"kind": "jobshop", "jobs": jobs, "rule": rng.choice(["spt", "lpt", "mwkr", "fifo", "random", "SPT"]),
            "local_search": rng.random() < 0.8, "max_iter": rng.choice([0, 1, 2, 5, 20, 100, 200]),
            "seed": rng.choice([None, 0, 1, 99]), "rng": seams.gen_rng_case(rng, 0.25, 100),
            "interval": rng.choice([0, 1, 1, 3]), "clock": seams.gen_clock_case(rng, 50), "seq_as": rng.choice(["list", "tuple"])}
    if case["interval"] and rng.random() < 0.5:
        case["cancel"] = {"kind": "tick", "frac": rng.random(), "mode": rng.choice(["first", "last", "frac"])}
    else:
        case["cancel"] = {"kind": "never"}
    return case


# ------------------------------------------------------------------------------------------- independent evaluator


class Ref:
    """From-scratch model of an instance: distances, arrival times, violations, objective."""

    def __init__(self, inst):
        self.pts = [tuple(inst["depot"])] + [(c[1], c[2]) for c in inst["customers"]]
        self.demand = [0.0] + [c[3] for c in inst["customers"]]
        self.tw0 = [0.0] + [c[4] for c in inst["customers"]]
        self.tw1 = [INF] + [INF if c[5] is None else c[5] for c in inst["customers"]]
        self.service = [0.0] + [c[6] for c in inst["customers"]]
        self.req = [1] + [c[7] for c in inst["customers"]]
        self.cap = [INF if v[0] is None else v[0] for v in inst["vehicles"]]
        self.n = len(inst["customers"])

    def d(self, a, b):
        return math.hypot(self.pts[a][0] - self.pts[b][0], self.pts[a][1] - self.pts[b][1])

    def arrivals(self, route):
        out = []
        if not route:
            return out
        t = self.d(0, route[0])
        for i, c in enumerate(route):
            t = max(t, self.tw0[c])
            out.append(t)
            t += self.service[c]
            if i + 1 < len(route):
                t += self.d(c, route[i + 1])
        return out

    def objective(self, routes, unassigned, w):
        dist = 0.0
        used = 0
        tw = 0.0
        capv = 0.0
        arr = [self.arrivals(r) for r in routes]
        for v, r in enumerate(routes):
            if r:
                used += 1
                dist += self.d(0, r[0]) + sum(self.d(r[i], r[i + 1]) for i in range(len(r) - 1)) + self.d(r[-1], 0)
            for i, c in enumerate(r):
                if arr[v][i] > self.tw1[c]:
                    tw += arr[v][i] - self.tw1[c]
            load = sum(self.demand[c] for c in r)
            if load > self.cap[v]:
                capv += load - self.cap[v]
        sync = 0.0
        for c in range(1, self.n + 1):
            if self.req[c] <= 1:
                continue
            times = [arr[v][r.index(c)] for v, r in enumerate(routes) if c in r]
            if len(times) < self.req[c]:
                sync += (self.req[c] - len(times)) * 1000.0
            elif len(times) > 1:
                sync += max(times) - min(times)
        return (w["distance_weight"] * dist + w["vehicle_weight"] * used + w["tw_penalty"] * tw + w["capacity_penalty"] * capv
                + w["sync_penalty"] * sync + 100000.0 * len(unassigned))


DEFAULT_W = {"distance_weight": 1.0, "vehicle_weight": 0.0, "tw_penalty": 1000.0, "capacity_penalty": 1000.0, "sync_penalty": 10000.0}


def close(a, b, tol=1e-9):
    if a == b:
        return True
    if math.isinf(a) or math.isinf(b) or math.isnan(a) or math.isnan(b):
        return False
    return abs(a - b) <= tol * max(1.0, abs(a), abs(b))


def check_state(ref: Ref, state):
    """Returns (class, detail) of the first broken invariant, or None."""
    n = ref.n
    routes = state.routes
    un = state.unassigned
    if len(routes) != len(ref.cap) or len(state.arrival_times) != len(routes):
        return "bad_shape", f"{len(routes)} routes / {len(state.arrival_times)} arrival lists for {len(ref.cap)} vehicles"
    for v, r in enumerate(routes):
        for c in r:
            if not (isinstance(c, int) and 1 <= c <= n):
                return "bad_id", f"route {v} contains {c!r}"
        if len(set(r)) != len(r):
            return "twice_on_route", f"route {v} = {r} visits a customer twice"
    for c in un:
        if not (isinstance(c, int) and 1 <= c <= n):
            return "bad_id", f"unassigned contains {c!r}"
    for c in range(1, n + 1):
        on = [v for v, r in enumerate(routes) if c in r]
        if c in un and on:
            return "in_both", f"customer {c} is in unassigned and on route(s) {on}: routes={routes} unassigned={sorted(un)}"
        if c not in un and not on:
            return "lost_customer", f"customer {c} (required_vehicles={ref.req[c]}) is neither unassigned nor routed: routes={routes} unassigned={sorted(un)}"
        if ref.req[c] == 1 and len(on) > 1:
            return "single_on_many", f"single-vehicle customer {c} is on routes {on}"
    for v, r in enumerate(routes):
        want = ref.arrivals(r)
        got = state.arrival_times[v]
        if len(got) != len(want) or any(not close(a, b) for a, b in zip(got, want)):
            return "stale_arrivals", f"route {v}={r}: arrival_times {got} but recomputed {want}"
    return None


def snapshot(state):
    return ([list(r) for r in state.routes], [list(a) for a in state.arrival_times], sorted(state.unassigned))


def build_problem(inst):
    m = solvor_mod("vrp")
    custs = [m.Customer(0, inst["depot"][0], inst["depot"][1])]
    for c in inst["customers"]:
        custs.append(m.Customer(c[0], c[1], c[2], c[3], c[4], INF if c[5] is None else c[5], c[6], c[7]))
    vehs = [m.Vehicle(i, INF if v[0] is None else v[0]) for i, v in enumerate(inst["vehicles"])]
    return m, custs, vehs


SOLVER_ERRORS = (UnboundLocalError, IndexError, KeyError, TypeError, ValueError, ZeroDivisionError, OverflowError, AttributeError,
                 RecursionError, AssertionError, NameError)


# ------------------------------------------------------------------------------------------- ops histories


def exec_ops(case, o: Outcome):
    inst = case["inst"]
    ref = Ref(inst)
    m, custs, vehs = build_problem(inst)
    plan = seams.make_rng_plan(case.get("rng"))
    has_multi = any(c[7] > 1 for c in inst["customers"])
    with seams.install_rng(RNG_MODULES, plan):
        rng = seams.SimRandom(case["seed"])
        state = m.VRPState.from_problem(custs, vehs)
        bad = check_state(ref, state)
        if bad:
            o.violate(PROP, bad[0], f"from_problem: {bad[1]}", target="from_problem")
            return
        history = []
        if case["init"] != "empty":
            history.append({"op": {"greedy": "greedy_insertion", "sync": "sync_aware_insertion", "regret": "regret_insertion"}[case["init"]]})
        history += case["ops"]
        destroyed = False
        for step, op in enumerate(history):
            fn = getattr(m, op["op"])
            before = snapshot(state)
            kwargs = {k: v for k, v in op.items() if k != "op"}
            had_multi_routed = any(ref.req[c] > 1 for r in state.routes for c in r)
            try:
                new = fn(state, rng, **kwargs)
            except SOLVER_ERRORS as e:
                o.violate(PROP, f"exception:{type(e).__name__}", f"step {step} {op}: {type(e).__name__}: {e}", target=op["op"])
                return
            if snapshot(state) != before:
                o.violate(PROP, "input_mutated", f"step {step} {op}: the operator changed its input state in place "
                          f"{before} -> {snapshot(state)}", target=op["op"])
                return
            bad = check_state(ref, new)
            o.trace.append([op["op"], [list(r) for r in new.routes], sorted(new.unassigned)])
            if bad:
                o.violate(PROP, bad[0], f"step {step} after {op}: {bad[1]}", target=op["op"], multi=has_multi)
                return
            if op["op"] in DESTROY:
                destroyed = True
                if op["op"] == "route_removal" and had_multi_routed:
                    o.probe("route_removal_with_multi_routed")
            elif destroyed and has_multi:
                o.nontrivial = True
            if op["op"] == "sync_aware_insertion" and any(ref.req[c] > 1 for c in new.unassigned):
                o.probe("sync_insert_left_multi_unplaced")
            # honest scoring of every intermediate state, not only the last one
            try:
                got = m.vrp_objective(new)
            except SOLVER_ERRORS as e:
                o.violate(PROP, f"exception:{type(e).__name__}", f"step {step}: vrp_objective: {e}", target="vrp_objective")
                return
            want = ref.objective(new.routes, new.unassigned, DEFAULT_W)
            if not close(got, want):
                o.violate(PROP, "objective_mismatch", f"step {step} after {op}: vrp_objective={got!r} but the documented weighted sum is {want!r} "
                          f"for routes={new.routes} unassigned={sorted(new.unassigned)}", target="vrp_objective")
                return
            state = new
            o.steps += 1
        # the documented objective of the final state
        try:
            got = m.vrp_objective(state)
        except SOLVER_ERRORS as e:
            o.violate(PROP, f"exception:{type(e).__name__}", f"vrp_objective: {e}", target="vrp_objective")
            return
        want = ref.objective(state.routes, state.unassigned, DEFAULT_W)
        if not close(got, want):
            o.violate(PROP, "objective_mismatch", f"vrp_objective={got!r} but recomputed weighted sum={want!r} for routes={state.routes} "
                      f"unassigned={sorted(state.unassigned)}", target="vrp_objective")
    if plan.fired:
        o.fault("rng_boundary", plan.fired)


# ------------------------------------------------------------------------------------------- solve_vrptw end to end


def run_vrptw(case, policy, o: Outcome | None, ref: Ref, record=True, entropy_salt=0):
    inst = case["inst"]
    m, custs, vehs = build_problem(inst)
    plan = seams.make_rng_plan(case.get("rng"))
    plan.entropy ^= entropy_salt  # an un-seeded generator gets other entropy every run (only matters if the caller's seed is dropped)
    clock = seams.SimClock(case.get("clock"))
    prog = seams.Progressor(policy, clock)
    w = dict(DEFAULT_W)
    if case.get("weights"):
        w.update(case["weights"])
    seen = {"n": 0, "bad": None}
    real_obj = m.vrp_objective

    def wrapped(state, **kw):
        seen["n"] += 1
        clock.on_eval()
        val = real_obj(state, **kw)
        if seen["bad"] is None:
            bad = check_state(ref, state)
            if bad:
                seen["bad"] = (seen["n"], bad)
            else:
                want = ref.objective(state.routes, state.unassigned, w)
                if not close(val, want):
                    seen["bad"] = (seen["n"], ("objective_mismatch", f"scored {val!r} but the documented weighted sum is {want!r} for "
                                               f"routes={state.routes} unassigned={sorted(state.unassigned)}"))
        return val

    res = exc = None
    m.vrp_objective = wrapped
    try:
        with seams.install_rng(RNG_MODULES, plan), seams.install_clock(clock):
            cust_arg = custs[1:]
            veh_arg = list(vehs)  # the caller's own fleet list (edited after the call, below)
            kw_cap = {}
            if case.get("as_tuples"):  # the documented tuple form of customers, and an int fleet when capacities are uniform
                cust_arg = []
                defaults = (None, None, None, 0.0, 0.0, INF, 0.0, 1)
                for c in custs[1:]:
                    t = (c.id, c.x, c.y, c.demand, c.tw_start, c.tw_end, c.service_time, c.required_vehicles)
                    k = 8
                    while k > 3 and t[k - 1] == defaults[k - 1]:  # the documented short forms: trailing defaults may be omitted
                        k -= 1
                    cust_arg.append(t[:k])
                caps = {v.capacity for v in vehs}
                if len(caps) == 1:
                    veh_arg = len(vehs)
                    kw_cap = {"vehicle_capacity": caps.pop()}
            res = m.solve_vrptw(cust_arg, veh_arg, tuple(inst["depot"]), max_iter=case["max_iter"], max_no_improve=case["max_no_improve"],
                                seed=case["seed"], on_progress=prog if case["interval"] else None,
                                progress_interval=case["interval"], **kw_cap, **(case.get("weights") or {}))
            aliased = None
            if res is not None and hasattr(res.solution, "vehicles"):
                # the caller goes on with its own lists (next scenario: smaller fleet, other customers); what was returned stays
                before = (len(res.solution.vehicles), len(res.solution.customers), snapshot(res.solution))
                if isinstance(veh_arg, list):
                    del veh_arg[:]
                if isinstance(cust_arg, list):
                    del cust_arg[:]
                after = (len(res.solution.vehicles), len(res.solution.customers), snapshot(res.solution))
                if before != after:
                    aliased = f"vehicles/customers/state before {before[:2]} after {after[:2]}"
    except SOLVER_ERRORS as e:
        exc = e
    finally:
        m.vrp_objective = real_obj
    return {"res": res, "exc": exc, "seen": seen, "prog": prog, "clock": clock, "plan": plan, "w": w, "aliased": aliased if exc is None else None}


def judge_vrptw(case, r, o: Outcome, ref: Ref, label):
    fam = "max_iter0" if case["max_iter"] == 0 else "std"
    if r["exc"] is not None:
        o.violate(PROP, f"exception:{type(r['exc']).__name__}", f"{label}: solve_vrptw raised {type(r['exc']).__name__}: {r['exc']}",
                  target="solve_vrptw", family=fam)
        return
    if r.get("aliased"):
        o.violate(PROP, "result_aliases_input", f"{label}: the returned state changed when the caller edited its own argument lists after the "
                  f"call: {r['aliased']}", target="solve_vrptw", family=fam)
        return
    if r["seen"]["bad"]:
        k, bad = r["seen"]["bad"]
        o.violate(PROP, bad[0], f"{label}: candidate #{k} evaluated by ALNS: {bad[1]}", target="solve_vrptw", family=fam)
    res = r["res"]
    st = res.solution
    bad = check_state(ref, st)
    if bad:
        o.violate(PROP, bad[0], f"{label}: returned state: {bad[1]}", target="solve_vrptw", family=fam)
        return
    want = ref.objective(st.routes, st.unassigned, r["w"])
    if not close(res.objective, want):
        o.violate(PROP, "objective_mismatch", f"{label}: result.objective={res.objective!r} but the weighted sum of the returned state is "
                  f"{want!r} (routes={st.routes}, unassigned={sorted(st.unassigned)})", target="solve_vrptw", family=fam)


def exec_vrptw(case, o: Outcome):
    ref = Ref(case["inst"])
    base = run_vrptw(case, {"kind": "never"}, o, ref)
    judge_vrptw(case, base, o, ref, "baseline")
    main = base
    c = case["cancel"]
    policy = {"kind": "never"}
    if base["exc"] is None and c["kind"] != "never" and base["prog"].ticks:
        T = base["prog"].ticks
        if c["kind"] == "tick":
            k = {"first": 1, "last": T}.get(c["mode"], 1 + int(c["frac"] * T))
            policy = {"kind": "tick", "k": min(k, T)}
        else:
            policy = {"kind": "time_limit", "limit": c["frac"] * base["clock"].elapsed, "interval": 7}
        main = run_vrptw(case, policy, o, ref)
        judge_vrptw(case, main, o, ref, f"cancel({policy})")
        if main["prog"].cancelled_at:
            o.fault("cancel@tick" if policy["kind"] == "tick" else "cancel@time_limit")
    for r in (base,) if main is base else (base, main):
        o.sim_time += r["clock"].elapsed
        o.steps += r["seen"]["n"]
    if base["plan"].fired:
        o.fault("rng_boundary", base["plan"].fired)
    if base["plan"].unseeded_used:
        o.fault("rng_unseeded")
    # reproducibility under the same simulated entropy
    again = run_vrptw(case, policy, o, ref, entropy_salt=0x5BD1E995 if case.get("seed") is not None else 0)
    def summ(r):
        if r["exc"] is not None or r["res"] is None:
            return ("exc", repr(r["exc"]))
        return (snapshot(r["res"].solution), repr(r["res"].objective), r["res"].iterations, r["res"].evaluations)
    if summ(again) != summ(main):
        o.violate(PROP, "irreproducible", f"solve_vrptw: two executions of the same case differ: {summ(main)} vs {summ(again)}",
                  target="solve_vrptw", family="std")
    o.trace.append(["vrptw", summ(base), summ(main)])
    if base["seen"]["n"] >= 3:
        o.nontrivial = True
    # the returned state is a live VRPState: a caller may go on applying the exported operators to it
    if main["exc"] is None and main["res"] is not None and not o.violations:
        import random as _r
        orng = _r.Random(case.get("rng", {}).get("entropy", 0))
        m = solvor_mod("vrp")
        st = main["res"].solution
        for step in range(3):
            name = orng.choice(DESTROY + REPAIR)
            try:
                st = getattr(m, name)(st, seams.SimRandom(orng.getrandbits(30)))
            except SOLVER_ERRORS as e:
                o.violate(PROP, f"exception:{type(e).__name__}", f"{name} on the state returned by solve_vrptw: {e}", target=name)
                break
            bad = check_state(ref, st)
            if bad:
                o.violate(PROP, bad[0], f"{name} applied to the state returned by solve_vrptw: {bad[1]}", target=name, multi=True)
                break


# ------------------------------------------------------------------------------------------- job shop


def validate_schedule(jobs, sched):
    ops = [(j, k) for j, job in enumerate(jobs) for k in range(len(job))]
    if not isinstance(sched, dict):
        return "bad_schedule", f"solution is {type(sched).__name__}"
    if set(sched.keys()) != set(ops):
        return "missing_operation", f"scheduled keys {sorted(sched.keys())} != operations {ops}"
    for (j, k) in ops:
        s, e = sched[(j, k)]
        if s < 0 or e - s != jobs[j][k][1]:
            return "bad_duration", f"op {(j, k)} scheduled [{s},{e}] but duration is {jobs[j][k][1]}"
        if k > 0 and s < sched[(j, k - 1)][1]:
            return "job_order", f"op {(j, k)} starts at {s} before op {(j, k-1)} ends at {sched[(j, k-1)][1]}"
    by_m: dict = {}
    for (j, k) in ops:
        by_m.setdefault(jobs[j][k][0], []).append((sched[(j, k)], (j, k)))
    for mach, lst in by_m.items():
        for a in range(len(lst)):
            for b in range(a + 1, len(lst)):
                (s1, e1), o1 = lst[a]
                (s2, e2), o2 = lst[b]
                if e1 > s1 and e2 > s2 and s1 < e2 and s2 < e1:
                    return "machine_overlap", f"ops {o1} [{s1},{e1}] and {o2} [{s2},{e2}] overlap on machine {mach}"
    return None


def run_jobshop(case, policy, jobs, entropy_salt=0):
    m = solvor_mod("job_shop")
    plan = seams.make_rng_plan(case.get("rng"))
    plan.entropy ^= entropy_salt  # an un-seeded generator gets other entropy every run (only matters if the caller's seed is dropped)
    clock = seams.SimClock(case.get("clock"))
    prog = seams.Progressor(policy, clock)
    res = exc = None
    try:
        with seams.install_rng(RNG_MODULES, plan), seams.install_clock(clock):
            res = m.solve_job_shop(jobs, rule=case["rule"], local_search=case["local_search"], max_iter=case["max_iter"], seed=case["seed"],
                                   on_progress=prog if case["interval"] else None, progress_interval=case["interval"])
    except SOLVER_ERRORS + (MemoryError,) as e:  # a table sized by the largest machine label, not by the number of machines
        exc = e
    return {"res": res, "exc": exc, "prog": prog, "plan": plan, "jobs": jobs}


def judge_jobshop(case, r, o: Outcome, label):
    fam = "max_iter0" if (case["max_iter"] == 0 and case["local_search"]) else "std"
    if r["exc"] is not None:
        o.violate(PROP, f"exception:{type(r['exc']).__name__}", f"{label}: solve_job_shop raised {type(r['exc']).__name__}: {r['exc']}",
                  target="solve_job_shop", family=fam)
        return
    res = r["res"]
    bad = validate_schedule(r["jobs"], res.solution)
    if bad:
        o.violate(PROP, bad[0], f"{label}: {bad[1]}", target="solve_job_shop", family=fam)
        return
    mk = max((e for _, e in res.solution.values()), default=0)
    if res.objective != mk:
        o.violate(PROP, "objective_mismatch", f"{label}: objective {res.objective!r} but latest end time is {mk!r}", target="solve_job_shop", family=fam)


def exec_jobshop(case, o: Outcome):
    jobs = [[tuple(op) for op in job] for job in case["jobs"]]  # one job list shared by all runs of the case
    if case.get("seq_as") == "tuple":
        jobs = tuple(tuple(job) for job in jobs)
    base = run_jobshop(case, {"kind": "never"}, jobs)
    judge_jobshop(case, base, o, "baseline")
    main, policy = base, {"kind": "never"}
    c = case["cancel"]
    if base["exc"] is None and c["kind"] == "tick" and base["prog"].ticks:
        T = base["prog"].ticks
        k = {"first": 1, "last": T}.get(c["mode"], 1 + int(c["frac"] * T))
        policy = {"kind": "tick", "k": min(k, T)}
        main = run_jobshop(case, policy, jobs)
        judge_jobshop(case, main, o, f"cancel({policy})")
        if main["prog"].cancelled_at:
            o.fault("cancel@tick")
    if base["plan"].fired:
        o.fault("rng_boundary", base["plan"].fired)
    if base["plan"].unseeded_used:
        o.fault("rng_unseeded")
    again = run_jobshop(case, policy, jobs, entropy_salt=0x5BD1E995 if case.get("seed") is not None else 0)

    def summ(r):
        if r["exc"] is not None:
            return ("exc", repr(r["exc"]))
        return (sorted((k, v) for k, v in r["res"].solution.items()), r["res"].objective, r["res"].iterations, r["res"].evaluations)
    if summ(again) != summ(main):
        o.violate(PROP, "irreproducible", f"solve_job_shop: two executions of the same case differ", target="solve_job_shop", family="std")
    o.trace.append(["jobshop", summ(base), summ(main)])
    if base["res"] is not None:
        o.steps += base["res"].evaluations
        if base["res"].evaluations > 1:
            o.nontrivial = True


def execute(case) -> Outcome:
    o = Outcome()
    o.trace.append(case["kind"])
    {"ops": exec_ops, "vrptw": exec_vrptw, "jobshop": exec_jobshop}[case["kind"]](case, o)
    return o


# ------------------------------------------------------------------------------------------- shrinking


def _drop_customer(case, idx):
    c = copy.deepcopy(case)
    cs = c["inst"]["customers"]
    del cs[idx]
    for i, cu in enumerate(cs):
        cu[0] = i + 1
    return c


def shrink(case):
    if case["kind"] == "jobshop":
        if len(case["jobs"]) > 1:
            yield from shr.list_shrinks(case, ("jobs",), 1)
        for j, job in enumerate(case["jobs"]):
            if len(job) > 1:
                for cand in shr.drop_chunks(job, 1):
                    yield shr.with_path(case, ("jobs", j), cand)
        if case["max_iter"] > 1:
            for v in shr.shrink_int(case["max_iter"], 1):
                yield shr.with_path(case, ("max_iter",), v)
        if case["cancel"]["kind"] != "never":
            yield shr.with_path(case, ("cancel",), {"kind": "never"})
        return
    if case["kind"] == "ops":
        yield from shr.list_shrinks(case, ("ops",))
        if case["init"] != "empty":
            yield shr.with_path(case, ("init",), "empty")
    else:
        if case["cancel"]["kind"] != "never":
            yield shr.with_path(case, ("cancel",), {"kind": "never"})
        if case["max_iter"] > 1:
            for v in shr.shrink_int(case["max_iter"], 1):
                yield shr.with_path(case, ("max_iter",), v)
        if case.get("weights"):
            yield shr.with_path(case, ("weights",), None)
    if case["rng"].get("script_r") or case["rng"].get("script_b"):
        c = copy.deepcopy(case)
        c["rng"]["script_r"], c["rng"]["script_b"] = {}, []
        yield c
    n = len(case["inst"]["customers"])
    if n > 1:
        for idx in range(n - 1, -1, -1):
            yield _drop_customer(case, idx)
    if len(case["inst"]["vehicles"]) > 1:
        yield from shr.list_shrinks(case, ("inst", "vehicles"), 1)
    for i, cu in enumerate(case["inst"]["customers"]):
        simple = [cu[0], cu[1], cu[2], 0, 0, None, 0, cu[7]]
        if cu != simple:
            yield shr.with_path(case, ("inst", "customers", i), simple)
        if cu[7] > 2:
            c = copy.deepcopy(case)
            c["inst"]["customers"][i][7] = 2
            yield c
    for v, ve in enumerate(case["inst"]["vehicles"]):
        if ve[0] is not None:
            yield shr.with_path(case, ("inst", "vehicles", v), [None])
