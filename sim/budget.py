"""Deterministic step budgets (bounded liveness without wall clocks).

sys.monitoring (3.12) JUMP + PY_START events, enabled only on the code objects of the solvor
modules under test.  Every Python loop iteration ends in an unconditional backward JUMP in 3.12
bytecode and every recursion step is a PY_START, so a counter over these events is a pure
function of the execution: the same run exceeds (or not) the same budget in every process.
"""

from __future__ import annotations

import contextlib
import importlib
import sys
import types

TOOL = 3


class StepBudgetExceeded(BaseException):
    """BaseException so that `except Exception` inside solvers cannot swallow it."""


_state = {"count": 0, "limit": 1 << 62, "active": False, "installed": False}
_codes: dict[int, types.CodeType] = {}


def _on_event(code, *args):
    s = _state
    s["count"] += 1
    if s["count"] > s["limit"] and s["active"]:
        s["active"] = False  # raise once
        raise StepBudgetExceeded(s["count"])


def _walk(co, out, seen):
    if id(co) in seen:
        return
    seen.add(id(co))
    out.append(co)
    for c in co.co_consts:
        if isinstance(c, types.CodeType):
            _walk(c, out, seen)


def code_objects(mod) -> list:
    out: list = []
    seen: set = set()
    for v in list(vars(mod).values()):
        if isinstance(v, types.FunctionType) and v.__module__ == mod.__name__:
            _walk(v.__code__, out, seen)
        elif isinstance(v, type) and v.__module__ == mod.__name__:
            for a in vars(v).values():
                f = getattr(a, "__func__", a)
                if isinstance(f, types.FunctionType):
                    _walk(f.__code__, out, seen)
                elif isinstance(a, property):
                    for g in (a.fget, a.fset):
                        if g is not None:
                            _walk(g.__code__, out, seen)
    return out


def install(modules=(), functions=()):
    """Enable counting on the given solvor modules / extra functions (idempotent, per process)."""
    mon = sys.monitoring
    ev = mon.events
    if not _state["installed"]:
        mon.use_tool_id(TOOL, "simcheck")
        mon.register_callback(TOOL, ev.JUMP, _on_event)
        mon.register_callback(TOOL, ev.PY_START, _on_event)
        _state["installed"] = True
    new: list = []
    for m in modules:
        new.extend(code_objects(importlib.import_module(m)))
    seen: set = set()
    for f in functions:
        _walk(f.__code__, new, seen)
    for co in new:
        if id(co) not in _codes:
            _codes[id(co)] = co
            mon.set_local_events(TOOL, co, ev.JUMP | ev.PY_START)


class _Steps:
    def __init__(self):
        self.count = 0
        self.exceeded = False


@contextlib.contextmanager
def steps(limit: int):
    """Count events inside the block; raise StepBudgetExceeded inside the solver past `limit`."""
    b = _Steps()
    _state["count"] = 0
    _state["limit"] = int(limit)
    _state["active"] = True
    try:
        yield b
    except StepBudgetExceeded:
        b.exceeded = True
        raise
    finally:
        _state["active"] = False
        b.count = _state["count"]
