"""Simulator-owned seams: RNG (S1), clock (S2), progress/cancel policies (S3).

None of this needs a change in /repo: solver modules do `from random import Random`
and call `Random(seed)` at call time, and helpers does `from time import perf_counter`.
"""

from __future__ import annotations

import contextlib
import importlib
import io
import random


class SimRandom(random.Random):
    """random.Random whose primitive draws (random(), getrandbits()) are owned by the simulator.

    faithful: identical stream to random.Random(seed) - what a user with that seed gets.
    unseeded: caller passed seed=None; entropy comes from the case, so the run replays.
    scripted: at chosen draw indices random() returns a boundary value and getrandbits(k) returns 0.
              (never a large getrandbits value: _randbelow would spin)
    """

    # class-level plan consumed by instances created through factory(); set by install_rng
    _plan = None

    def __new__(cls, seed=None):
        return super().__new__(cls)

    def __init__(self, seed=None):
        plan = SimRandom._plan
        self._sim = plan
        if seed is None and plan is not None:
            plan.unseeded_used += 1
            seed = plan.next_entropy()
        super().__init__(seed)

    def random(self):
        plan = self._sim
        if plan is None:
            return super().random()
        i = plan.draws
        plan.draws += 1
        v = super().random()  # keep the underlying stream advancing identically
        s = plan.script_r.get(i)
        if s is not None:
            plan.fired += 1
            return s
        return v

    def getrandbits(self, k):
        plan = self._sim
        if plan is None:
            return super().getrandbits(k)
        i = plan.draws
        plan.draws += 1
        v = super().getrandbits(k)
        if i in plan.script_b:
            plan.fired += 1
            return 0
        return v


class RngPlan:
    def __init__(self, entropy: int = 0, script_r: dict | None = None, script_b=None):
        self.entropy = entropy
        self.script_r = {int(k): v for k, v in (script_r or {}).items()}
        self.script_b = set(int(x) for x in (script_b or ()))
        self.draws = 0
        self.fired = 0
        self.unseeded_used = 0
        self._n = 0

    def next_entropy(self) -> int:
        self._n += 1
        return (self.entropy * 1_000_003 + self._n) & ((1 << 62) - 1)


BOUNDARY = [0.0, 1.0 - 2.0**-53, 0.5, 2.0**-40, 0.999]


def make_rng_plan(case_rng: dict | None) -> RngPlan:
    """case_rng: {"entropy": int, "script_r": {idx: float}, "script_b": [idx]} (JSON-able)."""
    if not case_rng:
        return RngPlan()
    return RngPlan(case_rng.get("entropy", 0), case_rng.get("script_r"), case_rng.get("script_b"))


def gen_rng_case(rng: random.Random, p_script: float = 0.3, horizon: int = 400) -> dict:
    """Draw the RNG part of a case."""
    out = {"entropy": rng.getrandbits(40), "script_r": {}, "script_b": []}
    if rng.random() < p_script:
        n = rng.choice([1, 1, 2, 4, 8, 32])
        for _ in range(n):
            idx = int(rng.random() ** 2 * horizon)
            if rng.random() < 0.7:
                out["script_r"][str(idx)] = rng.choice(BOUNDARY)
            else:
                out["script_b"].append(idx)
        if rng.random() < 0.15:  # a whole run of extreme draws
            v = rng.choice([0.0, 1.0 - 2.0**-53])
            start = rng.randrange(0, 50)
            for idx in range(start, start + rng.choice([10, 50, 200])):
                out["script_r"][str(idx)] = v
    return out


@contextlib.contextmanager
def install_rng(modules: list[str], plan: RngPlan):
    """Swap the `Random` attribute of the named solvor modules for SimRandom bound to plan."""
    mods = [importlib.import_module(m) for m in modules]
    saved = [(m, m.Random) for m in mods if hasattr(m, "Random")]
    prev = SimRandom._plan
    SimRandom._plan = plan
    try:
        for m, _ in saved:
            m.Random = SimRandom
        yield plan
    finally:
        for m, r in saved:
            m.Random = r
        SimRandom._plan = prev


class SimClock:
    """The only clock the shipped progress helpers read while installed.  Monotonic."""

    def __init__(self, profile: dict | None = None):
        profile = profile or {}
        self.now = float(profile.get("t0", 1000.0))
        self.per_read = float(profile.get("per_read", 0.0))
        self.per_eval = float(profile.get("per_eval", 0.001))
        self.events = {int(k): v for k, v in (profile.get("events") or {}).items()}  # eval idx -> extra seconds
        self.evals = 0
        self.reads = 0
        self.stalls = 0
        self.jumps = 0
        self.t_start = self.now

    def read(self) -> float:
        self.reads += 1
        self.now += self.per_read
        return self.now

    def on_eval(self):
        i = self.evals
        self.evals += 1
        self.now += self.per_eval
        extra = self.events.get(i)
        if extra:
            self.now += extra
            if extra >= 600:
                self.jumps += 1
            else:
                self.stalls += 1

    @property
    def elapsed(self) -> float:
        return self.now - self.t_start


def gen_clock_case(rng: random.Random, horizon: int = 300) -> dict:
    prof = {"t0": rng.choice([0.0, 1000.0, 1e9]), "per_eval": rng.choice([0.0, 0.001, 0.01, 1.0]),
            "per_read": rng.choice([0.0, 0.0, 1e-6, 0.01]), "events": {}}
    for _ in range(rng.choice([0, 0, 1, 2, 4])):
        idx = int(rng.random() ** 2 * horizon)
        prof["events"][str(idx)] = rng.choice([0.5, 5.0, 60.0, 3600.0, 86400.0])
    return prof


@contextlib.contextmanager
def install_clock(clock: SimClock):
    helpers = importlib.import_module("solvor.utils.helpers")
    saved = helpers.perf_counter
    helpers.perf_counter = clock.read
    try:
        yield clock
    finally:
        helpers.perf_counter = saved


class Progressor:
    """Simulator-owned on_progress peer.

    policy: {"kind": "never"} | {"kind": "tick", "k": int} | {"kind": "truthy", "k": int, "value": 1|"stop"}
            | {"kind": "time_limit", "limit": float, "interval": int}  (real default_progress on the sim clock)
            | {"kind": "timed", "limit": float}                        (real timed_progress wrapper)
    """

    def __init__(self, policy: dict | None, clock: SimClock | None = None):
        self.policy = policy or {"kind": "never"}
        self.clock = clock
        self.ticks = 0
        self.cancelled_at = None
        self.log: list = []  # (iteration, objective, best, evaluations)
        self._inner = None
        kind = self.policy["kind"]
        if kind in ("time_limit", "timed"):
            # the shipped helpers read the clock when they are constructed: that read must be simulated too
            helpers = importlib.import_module("solvor.utils.helpers")
            saved = helpers.perf_counter
            helpers.perf_counter = clock.read
            try:
                if kind == "time_limit":
                    self._inner = helpers.default_progress(
                        "sim", interval=int(self.policy.get("interval", 100)), time_limit=self.policy["limit"]
                    )
                else:
                    lim = self.policy["limit"]
                    self._inner = helpers.timed_progress(lambda p, elapsed: elapsed > lim)
            finally:
                helpers.perf_counter = saved

    def __call__(self, progress):
        self.ticks += 1
        self.log.append((progress.iteration, progress.objective, progress.best, progress.evaluations))
        kind = self.policy["kind"]
        if kind == "never":
            return None
        if kind == "tick":
            if self.ticks >= self.policy["k"]:
                if self.cancelled_at is None:
                    self.cancelled_at = self.ticks
                return True
            return False
        if kind == "truthy":
            # documented contract: only `True` stops the run
            if self.ticks >= self.policy["k"]:
                return self.policy.get("value", 1)
            return 0
        if kind in ("time_limit", "timed"):
            with contextlib.redirect_stdout(io.StringIO()):
                r = self._inner(progress)
            if r is True and self.cancelled_at is None:
                self.cancelled_at = self.ticks
            return r
        raise ValueError(kind)


# ----------------------------------------------------------------------------------------------- tripwires


class NondeterminismLeak(BaseException):
    """A solvor module reached a real clock or OS entropy outside a simulator-owned seam: harness error."""


class _TripRandom(random.Random):
    def __init__(self, seed=None):
        if seed is None:
            raise NondeterminismLeak("Random() seeded from OS entropy outside install_rng")
        super().__init__(seed)


def _trip_clock():
    raise NondeterminismLeak("real perf_counter read outside install_clock")


RNG_USERS = ["anneal", "tabu", "lns", "genetic", "differential_evolution", "particle_swarm", "bayesian", "job_shop", "vrp", "milp",
             "utils.helpers"]


def arm_tripwires():
    """Called once per worker: any un-simulated entropy/clock read inside solvor becomes a loud harness error
    instead of a silent source of run-to-run variation."""
    for name in RNG_USERS:
        m = importlib.import_module(f"solvor.{name}")
        if getattr(m, "Random", None) is random.Random:
            m.Random = _TripRandom
    helpers = importlib.import_module("solvor.utils.helpers")
    helpers.perf_counter = _trip_clock
