"""Worker process: a fresh interpreter (so PYTHONHASHSEED is fixed at start-up) that executes a block of runs,
one stored case, or a shrink job.  Speaks JSON lines on stdout; logging never draws randomness or reads a clock."""

from __future__ import annotations

import faulthandler
import json
import os
import sys
import traceback

sys.path.insert(0, os.path.dirname(os.path.abspath(__file__)))

import core  # noqa: E402
import shrink as shr  # noqa: E402


def emit(obj):
    sys.stdout.write(json.dumps(obj, default=core._default) + "\n")


def safe_execute(mod, case):
    """execute() converts solver misbehaviour into violations itself; anything escaping is a harness error."""
    return mod.execute(case)


def cmd_run(argv):
    prop, seed, tier, start, count, sample_every = argv[0], int(argv[1]), argv[2], int(argv[3]), int(argv[4]), int(argv[5])
    mod = core.prop_module(prop)
    key = core.REGISTRY[prop]
    emit({"hello": {"prop": prop, "seed": seed, "tier": tier, "start": start, "count": count,
                    "hashseed": os.environ.get("PYTHONHASHSEED"), "pid_free": True}})
    n_bad = 0
    max_bad = int(os.environ.get("VERIF_MAX_BAD_PER_BLOCK", "12"))
    for r in range(start, start + count):
        rng = core.run_rng(seed, key, r)
        case = None
        try:
            case = mod.generate(rng, tier)
            out = safe_execute(mod, case)
        except (KeyError, IndexError, TypeError, ValueError, AttributeError, ZeroDivisionError, OverflowError) as e:
            if case is None:
                raise
            # The judges crashed on what the solver handed back (wrong shape / wrong type).  On the unchanged tree this does not
            # happen in millions of soak runs, so it is the result that is malformed: a violation, not a harness failure.
            tb = traceback.format_exc()
            out = core.Outcome()
            out.violate(prop, "malformed_result", f"the oracle could not even read the result: {type(e).__name__}: {e} | {tb[-400:]}",
                        target="result_shape")
        except BaseException as e:  # harness error, not a violation
            emit({"r": r, "harness_error": f"{type(e).__name__}: {e}", "tb": traceback.format_exc()[-3000:]})
            sys.stdout.flush()
            if isinstance(e, KeyboardInterrupt):
                raise
            continue
        rec = out.to_json()
        rec["r"] = r
        if out.violations or (sample_every and r % sample_every == 0):
            rec["case"] = case
        emit(rec)
        if out.violations:
            n_bad += 1
            if n_bad >= max_bad:
                # a tree this broken needs no further exploration in this block (and hangs would only burn the time budget)
                emit({"stopped_early": r})
                break
    emit({"done": True})


def cmd_exec(argv):
    """exec <prop> <file>: file holds {"case": ...} or a list of such; prints one outcome per case."""
    prop, path = argv[0], argv[1]
    mod = core.prop_module(prop)
    data = json.load(open(path))
    items = data if isinstance(data, list) else [data]
    for it in items:
        try:
            try:
                out = safe_execute(mod, it["case"])
            except (KeyError, IndexError, TypeError, ValueError, AttributeError, ZeroDivisionError, OverflowError) as e:
                out = core.Outcome()
                out.violate(prop, "malformed_result", f"the oracle could not even read the result: {type(e).__name__}: {e}", target="result_shape")
            rec = out.to_json()
        except BaseException as e:
            rec = {"harness_error": f"{type(e).__name__}: {e}", "tb": traceback.format_exc()[-3000:]}
        emit(rec)
    emit({"done": True})


def cmd_shrink(argv):
    """shrink <prop> <infile> <outfile>: infile {"case":..., "target": violation dict}"""
    prop, inp, outp = argv[0], argv[1], argv[2]
    mod = core.prop_module(prop)
    data = json.load(open(inp))
    case, target = data["case"], data["target"]
    tkey = (target["prop"], core.canon(target["key"]))

    def still_fails(c):
        out = mod.execute(c)
        return any((v["prop"], core.canon(v["key"])) == tkey for v in out.violations)

    if not still_fails(case):
        json.dump({"case": case, "execs": 0, "reproduced": False}, open(outp, "w"))
        emit({"done": True})
        return
    small, execs = shr.minimise(case, mod.shrink, still_fails, max_execs=int(os.environ.get("VERIF_SHRINK_EXECS", "1200")))
    out = mod.execute(small)
    viol = [v for v in out.violations if (v["prop"], core.canon(v["key"])) == tkey][0]
    json.dump({"case": small, "execs": execs, "reproduced": True, "violation": viol, "digest": out.digest()},
              open(outp, "w"), default=core._default)
    emit({"done": True})


def main():
    faulthandler.enable()
    wd = int(os.environ.get("VERIF_WATCHDOG_S", "0"))
    if wd:
        faulthandler.dump_traceback_later(wd, exit=True)
    import seams
    seams.arm_tripwires()
    cmd = sys.argv[1]
    {"run": cmd_run, "exec": cmd_exec, "shrink": cmd_shrink}[cmd](sys.argv[2:])
    sys.stdout.flush()


if __name__ == "__main__":
    main()
