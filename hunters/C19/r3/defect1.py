"""bfgs / lbfgs given an objective that is a callable OBJECT with a length (falsy while empty) report the gradient
norm instead of the objective of the point they return, although they do use that objective for the line search."""
import sys
from solvor import bfgs, lbfgs


class Loss:
    """A least-squares loss over a list of data points, usable as loss(x); len(loss) = number of data points held.
    With no data the loss is just the constant regulariser-free offset 5 + (x-2)^2 (still a perfectly good function)."""

    def __init__(self, data=()):
        self.data = list(data)
        self.calls = 0

    def __len__(self):
        return len(self.data)

    def __call__(self, x):
        self.calls += 1
        return 5.0 + (x[0] - 2.0) ** 2 + sum((x[0] - d) ** 2 for d in self.data)

    def grad(self, x):
        return [2 * (x[0] - 2.0) + sum(2 * (x[0] - d) for d in self.data)]


bad = 0
for solver in (bfgs, lbfgs):
    for minimize in (True,):
        loss = Loss()  # no data points yet -> len(loss) == 0 -> bool(loss) is False, but loss(x) works
        res = solver(loss.grad, [0.0], objective_fn=loss, minimize=minimize)
        truth = Loss()(res.solution)
        ref = solver(loss.grad, [0.0], objective_fn=lambda x: Loss()(x), minimize=minimize)
        print(f"{solver.__name__}: solution={res.solution} reported objective={res.objective!r} "
              f"f(solution)={truth!r} objective calls made={loss.calls} "
              f"(same run with a plain function wrapper reports {ref.objective!r})")
        if res.objective != truth:
            bad += 1
            print("  -> the reported objective is NOT the objective of the returned point (it is the gradient norm)")
sys.exit(1 if bad else 0)
