"""Bounded solvers sample/return points outside finite bounds when hi - lo overflows."""
import sys
from solvor.differential_evolution import differential_evolution
from solvor.particle_swarm import particle_swarm
from solvor.bayesian import bayesian_opt

bounds = [(-1e308, 1e308)]          # finite floats, lo < hi
seen = []
def f(x):
    seen.append(x[0])
    return -abs(x[0])               # deterministic, defined on all floats

bad = 0
for solver in (differential_evolution, particle_swarm, bayesian_opt):
    seen.clear()
    r = solver(f, bounds, max_iter=6, seed=0)
    lo, hi = bounds[0]
    out = [v for v in seen if not (lo <= v <= hi)]
    if not (lo <= r.solution[0] <= hi) or out:
        print(f"{solver.__name__}: returned {r.solution} (objective {r.objective}); "
              f"{len(out)} of {len(seen)} evaluated points outside [{lo}, {hi}]")
        bad = 1
sys.exit(bad)
