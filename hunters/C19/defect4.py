"""tabu_search(cooldown=0) (no tabu memory = plain best-neighbour descent) raises IndexError."""
import sys
from solvor.tabu import tabu_search

def f(x):
    return (x[0] - 3) ** 2

def nbrs(x):
    return [(+1, (x[0] + 1,)), (-1, (x[0] - 1,))]

try:
    r = tabu_search((0,), f, nbrs, cooldown=0, max_iter=10)
except IndexError as e:
    print("tabu_search(cooldown=0) raised IndexError:", e)
    sys.exit(1)
sys.exit(0 if r.objective == f(r.solution) and r.objective <= f((0,)) else 1)
