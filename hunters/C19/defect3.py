"""bayesian_opt crashes (ZeroDivisionError) when one dimension has lo == hi (a fixed variable),
a bound that differential_evolution and particle_swarm accept."""
import sys
from solvor.bayesian import bayesian_opt
from solvor.differential_evolution import differential_evolution

def f(x):
    return (x[0] - 0.25) ** 2 + x[1]

bounds = [(0.0, 1.0), (2.0, 2.0)]
r = differential_evolution(f, bounds, max_iter=5, seed=0)
assert r.solution[1] == 2.0                      # peer solver handles the fixed dimension
try:
    r = bayesian_opt(f, bounds, max_iter=8, seed=0)
except ZeroDivisionError as e:
    print("bayesian_opt raised ZeroDivisionError on bounds", bounds, "->", e)
    sys.exit(1)
ok = all(lo <= v <= hi for v, (lo, hi) in zip(r.solution, bounds)) and r.objective == f(r.solution)
sys.exit(0 if ok else 1)
