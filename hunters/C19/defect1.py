"""DE / PSO silently drop warm-start points beyond the population size and
return a result worse than a starting point the caller supplied."""
import sys
from solvor.differential_evolution import differential_evolution
from solvor.particle_swarm import particle_swarm

def f(x):
    return sum((v - 3.0) ** 2 for v in x)

bounds = [(-10.0, 10.0)] * 2
starts = [[-9.0, -9.0]] * 4 + [[3.0, 3.0]]      # last start is the optimum, f = 0
best_start = min(f(s) for s in starts)
bad = 0
r = differential_evolution(f, bounds, population_size=4, max_iter=2, seed=1, initial_population=starts)
if r.objective > best_start:
    print(f"differential_evolution: result {r.objective} at {r.solution} is worse than supplied start {best_start}")
    bad = 1
r = particle_swarm(f, bounds, n_particles=4, max_iter=2, seed=1, initial_positions=starts)
if r.objective > best_start:
    print(f"particle_swarm: result {r.objective} at {r.solution} is worse than supplied start {best_start}")
    bad = 1
# same with the defaults: 16 warm starts, default population_size=15
starts = [[-9.0, -9.0]] * 15 + [[3.0, 3.0]]
r = differential_evolution(f, bounds, max_iter=1, seed=0, initial_population=starts)
if r.objective > 0.0:
    print(f"differential_evolution(defaults): result {r.objective} worse than supplied start 0.0")
    bad = 1
sys.exit(bad)
