"""powell(bounds=...) returns (and evaluates) points far outside the documented bounds."""
import sys
from solvor.powell import powell

bad = 0
cases = [
    ("shifted quadratic", lambda x: (x[0] + 3) ** 2, [0.5], [(0, 1)]),
    ("linear", lambda x: x[0], [0.5], [(0, 1)]),
    ("2-d quadratic", lambda x: (x[0] - 5) ** 2 + (x[1] + 5) ** 2, [0.5, 0.5], [(0, 1), (0, 1)]),
    ("maximize", lambda x: -(x[0] - 4) ** 2, [0.0], [(-1.0, 1.0)]),
]
for name, f, x0, bounds in cases:
    seen = []

    def rec(x, f=f, seen=seen):
        seen.append(list(x))
        return f(x)

    res = powell(rec, x0, bounds=bounds, minimize=(name != "maximize"))
    inside = all(lo <= v <= hi for v, (lo, hi) in zip(res.solution, bounds))
    n_out = sum(1 for p in seen if not all(lo <= v <= hi for v, (lo, hi) in zip(p, bounds)))
    print(f"{name}: bounds={bounds} returned {res.solution} objective={res.objective} "
          f"inside={inside}; {n_out}/{len(seen)} objective calls were outside the bounds")
    if not inside:
        bad += 1
if bad:
    print(f"DEFECT: powell returned a point outside its bounds in {bad} of {len(cases)} cases")
    sys.exit(1)
print("ok")
