"""An objective that is NaN at some points (inf-inf, 0*inf penalties ...) silently breaks best-tracking:
solvers return a finite objective that is WORSE than a start point / an evaluated candidate, or return NaN
although finite values were evaluated."""
import sys
from solvor.genetic import evolve
from solvor.nelder_mead import nelder_mead
from solvor.anneal import anneal
from solvor.differential_evolution import differential_evolution

nan = float("nan")
bad = []

# 1. evolve: three start points with objective 3, NaN, 1 ; no generations at all
def f(x):
    return float("inf") - float("inf") if x[0] == 5 else float(x[0])   # penalty arithmetic gone wrong at x=5
res = evolve(f, [[3], [5], [1]], lambda a, b: a, lambda a: a, max_iter=0, seed=0)
print("evolve: starts [3],[5],[1] -> solution", res.solution, "objective", res.objective, "(start [1] has objective 1.0)")
if not res.objective <= 1.0:
    bad.append("evolve worse than a start point")

# 2. nelder_mead: sphere with a NaN stripe; the best finite vertex is thrown away (mis-sorted simplex)
import random
rr = random.Random(1023)
n = rr.choice([1, 2, 3]); c = [rr.uniform(-2, 2) for _ in range(n)]; thr = rr.uniform(-1, 1)
def g(x):
    return nan if thr < x[0] < thr + 0.3 else sum((a - b) * (a - b) for a, b in zip(x, c))
x0 = [rr.uniform(-2, 2) for _ in range(n)]
calls = []
def grec(x):
    v = g(x); calls.append(v); return v
res = nelder_mead(grec, x0, max_iter=rr.choice([0, 1, 3, 20, 200]))
best_seen = min(v for v in calls if v == v)
print("nelder_mead: objective", res.objective, "best finite value it evaluated", best_seen)
if not res.objective <= best_seen:
    bad.append("nelder_mead lost its best evaluated point")

# 3. anneal / DE: NaN at the first evaluated point -> result NaN for ever, although finite points were evaluated
import random
r = random.Random(1)
calls = []
def h(x):
    v = nan if x[0] == 0 else abs(x[0] - 7); calls.append(v); return v
res = anneal([0], h, lambda x: [x[0] + r.choice([-1, 1])], max_iter=200, seed=1)
print("anneal: objective", res.objective, "solution", res.solution, "finite values evaluated:", sum(v == v for v in calls))
if res.objective != res.objective and any(v == v for v in calls):
    bad.append("anneal returns NaN though finite candidates were evaluated")
calls = []
def k(x):
    v = nan if abs(x[0]) > 4 else x[0] ** 2; calls.append(v); return v
res = differential_evolution(k, [(-5, 5)], population_size=4, max_iter=30, seed=2)
print("differential_evolution: objective", res.objective, "finite values evaluated:", sum(v == v for v in calls))
if res.objective != res.objective and any(v == v for v in calls):
    bad.append("differential_evolution returns NaN though finite candidates were evaluated")

if bad:
    print("DEFECT:", "; ".join(bad))
    sys.exit(1)
print("ok")
