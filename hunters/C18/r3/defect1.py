"""solve_vrptw crashes (ValueError from min() of an empty list) instead of returning a state when an insertion
cost overflows to inf for a customer that needs two vehicles and a lower-numbered vehicle has no feasible position."""
import sys
from solvor.vrp import Customer, Vehicle, solve_vrptw

customers = [Customer(1, 1e308, 0.0, demand=1.0, required_vehicles=2)]   # finite coordinates
vehicles = [Vehicle(0, capacity=0.0), Vehicle(1, capacity=5.0), Vehicle(2, capacity=5.0)]
bad = 0
for seed in range(5):
    try:
        r = solve_vrptw(customers, vehicles, (0.0, 0.0), max_iter=50, seed=seed)
        s = r.solution
        on = sum(1 in route for route in s.routes)
        assert (on == 0) == (1 in s.unassigned)
    except ValueError as e:
        bad += 1
        print(f"seed {seed}: solve_vrptw raised ValueError({e}) instead of returning a state")
if bad:
    print("expected: a state with customer 1 unassigned (or on routes 1 and 2) and the matching objective")
    sys.exit(1)
print("ok")
