"""solve_job_shop: objective is not the latest end time for large integer durations (float rounding / OverflowError)."""
import sys
from solvor.job_shop import solve_job_shop

bad = []
jobs = [[(0, 2**53), (1, 1)]]
res = solve_job_shop(jobs)
latest = max(e for _, e in res.solution.values())
print("objective", repr(res.objective), "latest end", latest)
if res.objective != latest:
    bad.append(f"objective {res.objective!r} != latest end {latest}")
try:
    solve_job_shop([[(0, 10**400)]])
except OverflowError as e:
    bad.append(f"duration 10**400 (a legal int): OverflowError({e}) instead of a schedule")
for b in bad:
    print("DEFECT", b)
sys.exit(1 if bad else 0)
