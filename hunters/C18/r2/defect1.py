"""C18 / solve_job_shop: "any machine indices" - a large machine label makes the solver fail.

Machine indices are only labels (the docs never ask for them to be dense or small), yet the solver
allocates a dense list of length max(machine)+1, so a two-job instance whose machine is labelled
10**10 (or 2**60) raises MemoryError instead of returning a schedule.  Exit 1 = defect present.
"""
import resource
import sys

from solvor import solve_job_shop

# keep the reproducer harmless: cap the address space at 2 GiB so the huge allocation fails at once
try:
    resource.setrlimit(resource.RLIMIT_AS, (2 << 30, resource.getrlimit(resource.RLIMIT_AS)[1]))
except (ValueError, OSError):
    pass


def valid(jobs, res):
    sch = res.solution
    if set(sch) != {(j, o) for j, job in enumerate(jobs) for o in range(len(job))}:
        return False
    by_m = {}
    for j, job in enumerate(jobs):
        prev_end = 0
        for o, (m, d) in enumerate(job):
            s, e = sch[(j, o)]
            if e - s != d or s < prev_end:
                return False
            prev_end = e
            by_m.setdefault(m, []).append((s, e))
    for iv in by_m.values():
        iv.sort()
        if any(a[1] > b[0] for a, b in zip(iv, iv[1:])):
            return False
    return res.objective == max(e for _, e in sch.values())


bad = 0
for label in (1, 10**10, 2**60):
    jobs = [[(label, 3), (0, 2)], [(label, 2), (0, 4)]]
    for ls in (False, True):
        try:
            res = solve_job_shop(jobs, rule="spt", local_search=ls, max_iter=20, seed=0)
            ok = valid(jobs, res)
            print(f"machine label {label}, local_search={ls}: makespan {res.objective}, valid={ok}")
            bad += not ok
        except BaseException as ex:  # MemoryError is a BaseException subclass of Exception, be generous
            print(f"machine label {label}, local_search={ls}: NO SCHEDULE - {type(ex).__name__} {ex}")
            bad += 1
if bad:
    print(f"DEFECT: {bad} of 6 calls inside the quantifier ('any machine indices') returned no valid schedule")
    sys.exit(1)
print("ok")
