"""solve_vrptw silently loses a customer / crashes when the unique customer ids are not exactly 1..n in list order."""
import math
import sys
from solvor.vrp import Customer, solve_vrptw

bad = []

# Case A: natural 0-based unique ids. Three customers, one vehicle, no constraints at all.
custs = [Customer(0, 10.0, 0.0), Customer(1, 0.0, 20.0), Customer(2, -30.0, 0.0)]
res = solve_vrptw(custs, 1, (0.0, 0.0), max_iter=50, seed=0)
s = res.solution
on_routes = [c for r in s.routes for c in r]
accounted = len(set(on_routes) | set(s.unassigned))
print("A routes", s.routes, "unassigned", s.unassigned, "objective", res.objective)
if accounted != len(custs):
    bad.append(f"A: {len(custs)} customers given, only {accounted} are on a route or unassigned (one is lost, unpenalised)")
# objective when the route entries are read as customer ids (the only ids the user knows)
byid = {c.id: c for c in custs}
def tour(route):
    pts = [(0.0, 0.0)] + [(byid[c].x, byid[c].y) for c in route] + [(0.0, 0.0)]
    return sum(math.hypot(a[0] - b[0], a[1] - b[1]) for a, b in zip(pts, pts[1:]))
want = sum(tour(r) for r in s.routes if r) + 100000.0 * (len(custs) - len(set(on_routes)))
if abs(want - res.objective) > 1e-6:
    bad.append(f"A: objective {res.objective} but the returned routes/unassigned, read by customer id, are worth {want}")

# Case B: unique ids with a gap -> crash instead of a state
try:
    solve_vrptw([Customer(1, 1.0, 0.0), Customer(3, 2.0, 0.0)], 1, max_iter=5, seed=0)
except IndexError as e:
    bad.append(f"B: ids [1, 3] -> IndexError({e})")

# Case C: ids 2,1 (permuted). Customer id 2 is unreachable in its window, id 1 is fine.
custs = [Customer(2, 10.0, 0.0, tw_end=5.0), Customer(1, 1.0, 0.0)]
s = solve_vrptw(custs, 1, max_iter=20, seed=0).solution
print("C routes", s.routes, "arrivals", s.arrival_times, "unassigned", s.unassigned)
if s.routes == [[2]] and s.arrival_times == [[1.0]]:
    bad.append("C: reports customer 2 (10 away, window closes at 5) served at t=1.0 and customer 1 unassigned")

for b in bad:
    print("DEFECT", b)
sys.exit(1 if bad else 0)
