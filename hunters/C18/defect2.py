"""solve_vrptw returns a state whose sync_assignments bookkeeping contradicts its routes."""
import sys
from solvor.vrp import Customer, solve_vrptw

custs = [
    Customer(1, -1, 7, demand=3, tw_start=0, tw_end=float("inf"), service_time=1, required_vehicles=2),
    Customer(2, -9, 2, demand=3, tw_start=0, tw_end=12, service_time=1, required_vehicles=2),
    Customer(3, 5, -2, demand=1, tw_start=0, tw_end=20, service_time=1, required_vehicles=2),
]
bad = []
for seed in range(40):
    s = solve_vrptw(custs, 2, (0.0, 0.0), vehicle_capacity=4, max_iter=100, seed=seed).solution
    for cid, vs in sorted(s.sync_assignments.items()):
        actual = {v for v, r in enumerate(s.routes) if cid in r}
        if actual != vs:
            bad.append(f"seed {seed}: sync_assignments[{cid}]={sorted(vs)} but customer {cid} is on routes {sorted(actual)}"
                       f" (routes={s.routes}, unassigned={sorted(s.unassigned)})")
            break
for b in bad[:5]:
    print("DEFECT", b)
print(len(bad), "of 40 seeds return a state with stale sync_assignments")
sys.exit(1 if bad else 0)
