"""Large demands: solve_cg says OPTIMAL with one roll more than the true minimum."""
import sys
from solvor.cg import solve_cg
from solvor.types import Status

W, sizes, demands = 27, [17, 4, 16], [2854339, 9546601, 4112549]
better = {(0, 2, 1): 4112549, (1, 2, 0): 2854339}          # certificate: 6966888 rolls
assert all(sum(a * s for a, s in zip(p, sizes)) <= W for p in better)
assert all(sum(p[i] * k for p, k in better.items()) >= demands[i] for i in range(3))
n_better = sum(better.values())
r = solve_cg(demands, roll_width=W, piece_sizes=sizes)
print(r.status.name, r.objective, r.solution)
if r.status == Status.OPTIMAL and r.objective > n_better:
    print(f"OPTIMAL claimed with {int(r.objective)} rolls but a plan with {n_better} rolls exists: {better}")
    sys.exit(1)
sys.exit(0)
