"""Roll width with 11 decimals: pattern wider than the roll, objective below the true minimum."""
import sys
from solvor.cg import solve_cg
from solvor.bp import solve_bp
from solvor.types import Status

W, sizes, demands = 2.99999999999, [1, 2], [1, 1]
# 1 + 2 = 3 > W, so the two pieces cannot share a roll: true minimum is 2 rolls
bad = 0
for f in (solve_cg, solve_bp):
    r = f(demands, roll_width=W, piece_sizes=sizes)
    if r.status in (Status.OPTIMAL, Status.FEASIBLE):
        for p in r.solution:
            used = sum(a * s for a, s in zip(p, sizes))
            if used > W:
                print(f"{f.__name__}: pattern {p} uses width {used} > roll_width {W!r}; status {r.status.name} objective {r.objective} (true minimum 2)")
                bad = 1
sys.exit(bad)
