"""solve_cg (custom mode) returns OPTIMAL plans that miss a demand."""
import sys
from solvor.cg import solve_cg
from solvor.types import Status

def no_more(duals):          # explicit column set == initial columns, nothing to add
    return None, 0.0

bad = 0
for demands, cols in (
    ([1], [(2_000_000_000,)]),                               # x = 5e-10 <= eps is dropped
    ([1_400_000_000, 2_000_000_000], [(2_000_000_000, 800_000_000)]),  # simplex skips a 5e-10 factor
):
    r = solve_cg(demands, pricing_fn=no_more, initial_columns=cols)
    if r.status in (Status.OPTIMAL, Status.FEASIBLE):
        for i, d in enumerate(demands):
            got = sum(c[i] * k for c, k in r.solution.items())
            if got < d:
                print(f"demands={demands} columns={cols}: status={r.status.name} objective={r.objective} "
                      f"plan={r.solution} produces {got} < {d} of piece {i}")
                bad = 1
sys.exit(bad)
