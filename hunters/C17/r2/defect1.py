"""C17 defect 1: solve_bp (custom pricing over an explicit column set) reports status OPTIMAL
for a plan of 4 columns although 3 columns suffice.

Only the public API and the stdlib are used.  Exit 1 = defect present, exit 0 = library correct.
"""
import itertools
import sys

from solvor.bp import solve_bp
from solvor.types import Status

ALL = [(0, 1, 1), (2, 0, 2), (0, 2, 0), (0, 2, 2), (1, 1, 0)]  # the explicit column set
DEMANDS = [3, 3, 3]


def brute_force_optimum():
    best = None
    for x in itertools.product(range(4), repeat=len(ALL)):  # 3 copies of one column never needed more
        if all(sum(c[i] * k for c, k in zip(ALL, x)) >= DEMANDS[i] for i in range(3)):
            if best is None or sum(x) < sum(best):
                best = x
    return sum(best), best


def make_pricing(initial):
    """Exact pricing over the explicit set ALL; proposes only columns that are not in the master yet."""
    pool = set(initial)

    def pricing(duals):
        best, best_rc = None, -1e-9
        for col in ALL:
            if col in pool:
                continue
            rc = 1.0 - sum(a * y for a, y in zip(col, duals))
            if rc < best_rc:
                best, best_rc = col, rc
        if best is None:
            return None, 0.0
        pool.add(best)
        return best, best_rc

    return pricing


def check(label, result, opt):
    sol = result.solution
    print(f"{label}: status={result.status.name} objective={result.objective} plan={sol}")
    bad = False
    if result.status in (Status.OPTIMAL, Status.FEASIBLE):
        for i, d in enumerate(DEMANDS):
            if sum(c[i] * k for c, k in sol.items()) < d:
                print("   plan misses demand", i)
                bad = True
        if result.objective != sum(sol.values()) or result.objective < opt:
            print("   objective inconsistent")
            bad = True
    if result.status == Status.OPTIMAL and result.objective != opt:
        print(f"   WRONG: status OPTIMAL with {result.objective:g} columns, true minimum is {opt}")
        bad = True
    return bad


def main():
    opt, x = brute_force_optimum()
    print("true minimum (brute force):", opt, "e.g.", {c: k for c, k in zip(ALL, x) if k})
    bad = False
    # (a) the whole explicit column set is given as initial_columns; nothing is left to price out
    r = solve_bp(DEMANDS, pricing_fn=lambda duals: (None, 0.0), initial_columns=ALL)
    bad |= check("full pool, pricing has nothing to add", r, opt)
    # (b) four initial columns, (0,2,2) is found by the pricing function
    init = [(0, 1, 1), (2, 0, 2), (0, 2, 0), (1, 1, 0)]
    r = solve_bp(DEMANDS, pricing_fn=make_pricing(init), initial_columns=init)
    bad |= check("partial pool, column generation", r, opt)
    # (c) a slightly larger instance of the same kind
    cols = [(0, 0, 1), (0, 1, 1), (2, 0, 2), (0, 2, 0), (0, 2, 2), (1, 1, 0)]
    r = solve_bp([5, 7, 7], pricing_fn=lambda duals: (None, 0.0), initial_columns=cols)
    print(f"larger instance: status={r.status.name} objective={r.objective} (6 columns suffice: "
          "2x(2,0,2)+3x(0,2,2)+1x(1,1,0))")
    if r.status == Status.OPTIMAL and r.objective > 6:
        print("   WRONG: OPTIMAL claimed above the true minimum 6")
        bad = True
    return 1 if bad else 0


if __name__ == "__main__":
    sys.exit(main())
