"""solve_cg / solve_bp (custom mode) report OPTIMAL with 2 columns although 1 column covers everything."""
import sys
from solvor.cg import solve_cg
from solvor.bp import solve_bp
from solvor.types import Status

demands = [210_000_000, 190_000_000]
cols = [(0, 160_000_000), (500_000_000, 200_000_000)]
# one copy of cols[1] gives (5e8, 2e8) >= demands, so the true minimum is 1
assert all(a >= d for a, d in zip(cols[1], demands))

def pricing(duals):  # exact pricing over the explicit column set
    rc, c = min((1.0 - sum(u * a for u, a in zip(duals, c)), c) for c in cols)
    return (c, rc) if rc < -1e-9 else (None, 0.0)

bad = 0
for f in (solve_cg, solve_bp):
    r = f(demands, pricing_fn=pricing, initial_columns=cols)
    if r.status == Status.OPTIMAL and r.objective != 1:
        print(f"{f.__name__}: status OPTIMAL objective {r.objective} plan {r.solution}; true minimum is 1: {{{cols[1]}: 1}}")
        bad = 1
# same instance divided by 1e7 is solved correctly, showing the scale dependence
r = solve_cg([21, 19], pricing_fn=lambda d: (None, 0.0), initial_columns=[(0, 16), (50, 20)])
print("scaled-down instance:", r.status.name, r.objective)
sys.exit(bad)
