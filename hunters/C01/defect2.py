"""C01: with an empty clause list the assumptions are ignored; even contradictory ones yield a 'model'."""
import sys
from solvor.sat import solve_sat
bad = 0
for asm in ([1, -1], [-2], (3,)):
    r = solve_sat([], assumptions=asm)
    if r.solution is not None and not all(r.solution.get(abs(a)) == (a > 0) for a in asm):
        print(f"solve_sat([], assumptions={asm!r}) -> solution={r.solution!r} status={r.status!r}: "
              f"does not agree with the assumption literals")
        bad = 1
# controls: as soon as one clause is present the same assumptions are honoured
print("control [[2]] + [-1]   ->", solve_sat([[2]], assumptions=[-1]).solution)
print("control [[1]] + [1,-1] ->", solve_sat([[1]], assumptions=[1, -1]).solution)
sys.exit(bad)
