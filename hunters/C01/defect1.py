"""C01: solve_sat([[]]) returns a 'model' although the empty clause cannot be satisfied."""
import sys
from solvor.sat import solve_sat
bad = 0
for clauses, kw in [([[]], {}), ([[], []], {"solution_limit": 3}), (((),), {"assumptions": []})]:
    r = solve_sat(clauses, **kw)
    if r.solution is not None:
        sat = all(any(r.solution.get(abs(l)) == (l > 0) for l in c) for c in clauses)
        if not sat:
            print(f"solve_sat({clauses!r}, {kw}) -> solution={r.solution!r} status={r.status!r}: "
                  f"an empty clause is not made true by the returned assignment")
            bad = 1
# control: the same empty clause next to another clause is (correctly) INFEASIBLE
print("control solve_sat([[], [1]]).solution =", solve_sat([[], [1]]).solution)
sys.exit(bad)
