"""C12 defect 1: strongly_connected_components_edges(backend='python') raises
RecursionError on a plain 1100-node path graph; backend='rust'/default answer it."""
import sys
from solvor.scc import strongly_connected_components_edges as scc
from solvor.rust import rust_available

n = 1100
edges = [(i, i + 1) for i in range(n - 1)]          # simple directed path, all indices in range
want = {frozenset([i]) for i in range(n)}           # definitional answer: n singleton components
bad = False
for b in ["python", None] + (["rust"] if rust_available() else []):
    try:
        r = scc(n, edges, backend=b)
        ok = r.status.name == "OPTIMAL" and {frozenset(c) for c in r.solution} == want and r.objective == n
        print(f"backend={b!r}: status={r.status.name} n_components={r.objective} correct={ok}")
        bad |= not ok
    except RecursionError as ex:
        print(f"backend={b!r}: RecursionError ({ex}) at recursion limit {sys.getrecursionlimit()}")
        bad = True
if bad:
    print("DEFECT: back-ends are not observably equivalent on a valid 1100-node input")
    sys.exit(1)
print("ok")
