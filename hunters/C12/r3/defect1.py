"""C12: pagerank_edges with a very large (but valid) max_iter.
backend='python' answers OPTIMAL after 28 iterations; backend='rust' and the
default back-end raise OverflowError because the adapter hands max_iter to a
Rust `usize` parameter.  Exit 1 while the back-ends disagree, 0 when they agree."""
import sys
from solvor import pagerank_edges
from solvor.rust import RUST_AVAILABLE

edges = [(0, 1), (1, 2), (2, 0), (0, 2)]
bad = False
for max_iter in (2**64, 10**30):
    ref = pagerank_edges(3, edges, max_iter=max_iter, backend="python")
    print(f"max_iter={max_iter}: python -> {ref.status.name} after {ref.iterations} iterations")
    for backend in (("rust", None) if RUST_AVAILABLE else (None,)):
        try:
            res = pagerank_edges(3, edges, max_iter=max_iter, backend=backend)
        except Exception as exc:  # noqa: BLE001
            print(f"  backend={backend!r}: raised {type(exc).__name__}: {exc}")
            bad = True
            continue
        same = res.status == ref.status and all(
            abs(res.solution[i] - ref.solution[i]) <= 1e-6 for i in range(3)
        )
        print(f"  backend={backend!r}: {res.status.name} ({'same' if same else 'DIFFERENT'})")
        bad |= not same
# control: the largest value that fits is fine on both sides
ok = pagerank_edges(3, edges, max_iter=2**63, backend=None)
print("control max_iter=2**63, default backend:", ok.status.name, ok.iterations)
if bad:
    print("DEFECT: the chosen back-end is visible (exception vs. OPTIMAL result)")
    sys.exit(1)
print("back-ends agree")
