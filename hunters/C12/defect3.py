"""C12 defect 3: the Python back-ends of bfs_edges / dfs_edges / dijkstra_edges inherit a
hidden max_iter=1_000_000 from the generic bfs/dfs/dijkstra.  On a path graph with
1_000_003 nodes they report a truncated reachable set with status OPTIMAL (no target)
or MAX_ITER/None (target = last node); the Rust back-end returns the true answer."""
import sys
from solvor.bfs import bfs_edges, dfs_edges
from solvor.dijkstra import dijkstra_edges
from solvor.rust import rust_available

n = 1_000_003
E = [(i, i + 1) for i in range(n - 1)]
EW = [(i, i + 1, 1.0) for i in range(n - 1)]
backs = ["python", None] + (["rust"] if rust_available() else [])
bad = False
for f, e in ((bfs_edges, E), (dfs_edges, E), (dijkstra_edges, EW)):
    for b in backs:
        if f is not dijkstra_edges:
            r = f(n, e, 0, backend=b)                      # truth: every node is reachable from 0
            ok = r.solution == list(range(n))
            print(f"{f.__name__} no target backend={b!r}: status={r.status.name} reachable={len(r.solution)} (truth {n})")
            bad |= not ok
        r = f(n, e, 0, target=n - 1, backend=b)            # truth: the unique path 0..n-1, length n-1
        ok = r.solution == list(range(n)) and r.objective == n - 1
        print(f"{f.__name__} target={n-1} backend={b!r}: status={r.status.name} objective={r.objective}")
        bad |= not ok
if bad:
    print("DEFECT: answers/status depend on the back-end (and the Python answer is wrong)")
    sys.exit(1)
print("ok")
