"""C12 defect 4: pagerank_edges status depends on the back-end.
(a) max_iter=0: Python back-end crashes with UnboundLocalError, Rust returns MAX_ITER + uniform scores.
(b) tol=1e-16 on a 4-node graph: Python never converges (MAX_ITER after 1000), Rust reports OPTIMAL."""
import sys
from solvor.pagerank import pagerank_edges
from solvor.rust import rust_available

backs = ["python", None] + (["rust"] if rust_available() else [])
bad = False
seen = set()
for b in backs:
    try:
        r = pagerank_edges(2, [(0, 1)], max_iter=0, backend=b)
        out = (r.status.name, tuple(sorted(r.solution.items())))
    except Exception as ex:
        out = ("raised " + type(ex).__name__,); bad = True
    print(f"(a) max_iter=0 backend={b!r}: {out}")
    seen.add(out)
bad |= len(seen) > 1
E = [(3, 0), (0, 3), (0, 2), (2, 3), (0, 1), (0, 1), (2, 0), (1, 3)]
seen = set()
for b in backs:
    r = pagerank_edges(4, E, tol=1e-16, max_iter=1000, backend=b)
    print(f"(b) tol=1e-16 backend={b!r}: status={r.status.name} iterations={r.iterations}")
    seen.add(r.status.name)
bad |= len(seen) > 1
if bad:
    print("DEFECT: status / exception depends on which back-end ran")
    sys.exit(1)
print("ok")
