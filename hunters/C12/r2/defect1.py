"""C12 defect 1: the Rust bindings turn a distance of -inf into +inf ("unreachable").

Path 0 -> 1 -> 2 with two finite weights of -1e308: the exact distance -2e308 is below
the float range, so the float distance is -inf.  The Python back-end reports node 2 as
reached with distance -inf; the Rust back-end (and the default) report it as UNREACHABLE
(bellman_ford: missing from the distance dict / INFEASIBLE with target; floyd_warshall: +inf).
"""
import sys
from solvor.bellman_ford import bellman_ford
from solvor.floyd_warshall import floyd_warshall

E = [(0, 1, -1e308), (1, 2, -1e308)]  # finite weights, acyclic, node 2 reachable from 0
bad = 0
ref = {}
for b in ("python", "rust", None):
    d = bellman_ford(0, E, 3, backend=b)
    p = bellman_ford(0, E, 3, target=2, backend=b)
    f = floyd_warshall(3, E, backend=b)
    row = (d.status.name, d.solution, p.status.name, p.solution, p.objective, f.status.name, f.solution[0][2])
    print(f"backend={b!s:7}", row)
    # independent oracle: 2 is reachable through 0->1->2 whose cost is below every finite float
    ok = (2 in d.solution and d.solution[2] < -1.7e308 and p.status.name == "OPTIMAL"
          and p.solution == [0, 1, 2] and p.objective < -1.7e308 and f.solution[0][2] < -1.7e308)
    if not ok:
        print("   WRONG: node 2 is reachable (0->1->2) but reported unreachable / distance +inf")
        bad = 1
    ref.setdefault("row", row)
    if row != ref["row"]:
        print("   back-ends disagree with backend=python")
        bad = 1
sys.exit(bad)
