"""C12 defect 2: pagerank_edges - the Rust back-end never converges where the Python back-end does.

Star graph: leaves 1..n-1 all point to hub 0 (the hub is dangling).  n=5000, tol=1e-13.
Oracle: by symmetry the exact power iteration has only two values (hub, leaf); it is run here in
exact rational arithmetic and tells at which iteration the largest score change drops below tol.
A correct back-end must stop there (+-1) with status OPTIMAL for ANY max_iter above that.
"""
import sys
from fractions import Fraction
from solvor.pagerank import pagerank_edges

n, tol, d = 5000, 1e-13, 0.85
E = [(i, 0) for i in range(1, n)]

# exact oracle (hub h, leaf l), same update rule as the documented algorithm
D, N, T = Fraction(d), Fraction(n), Fraction(tol)
h = l = 1 / N
k_exact = None
for k in range(1, 1001):
    dang = D * h / N
    h2 = (1 - D) / N + D * (n - 1) * l + dang
    l2 = (1 - D) / N + dang
    diff = max(abs(h2 - h), abs(l2 - l))
    h, l = h2, l2
    if diff < T:
        k_exact = k
        break
print("exact iteration: largest change < tol first at iteration", k_exact)

bad = 0
res = {}
for mi in (300, 1000, 5000):
    for b in ("python", "rust", None):
        r = pagerank_edges(n, E, tol=tol, max_iter=mi, backend=b)
        err = max(abs(r.solution[0] - float(h)), abs(r.solution[1] - float(l)))
        res[b] = r
        print(f"max_iter={mi:5} backend={b!s:7} status={r.status.name:8} iterations={r.iterations:5} |score-exact|={err:.2e}")
        if r.status.name != "OPTIMAL" or abs(r.iterations - k_exact) > 2:
            print("   WRONG: exact iteration converges at", k_exact, "but this back-end reports", r.status.name, "after", r.iterations)
            bad = 1
    gap = max(abs(res["python"].solution[i] - res["rust"].solution[i]) for i in range(n))
    if res["python"].status != res["rust"].status or gap > tol:
        print(f"   back-ends disagree: status {res['python'].status.name} vs {res['rust'].status.name}, largest score gap {gap:.2e} > tol {tol}")
        bad = 1
sys.exit(bad)
