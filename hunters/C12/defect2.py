"""C12 defect 2: strongly_connected_components_edges(backend='rust') (and the default
when the extension is present) kills the interpreter (stack overflow, SIGSEGV) on a
100000-node path graph; backend='python' answers it once the recursion limit is raised."""
import subprocess, sys
CODE = """
import sys
sys.setrecursionlimit(1_000_000)
from solvor.scc import strongly_connected_components_edges as scc
n = 100_000
r = scc(n, [(i, i + 1) for i in range(n - 1)], backend=%r)
assert r.status.name == 'OPTIMAL' and r.objective == n and sorted(c[0] for c in r.solution) == list(range(n))
print('answered', r.objective)
"""
from solvor.rust import rust_available
if not rust_available():
    print("rust extension not built: nothing to compare"); sys.exit(0)
rc = {}
for b in ("python", "rust", None):
    p = subprocess.run([sys.executable, "-c", CODE % (b,)], capture_output=True, text=True)
    rc[b] = p.returncode
    print(f"backend={b!r}: exit code {p.returncode} {p.stdout.strip()} {p.stderr.strip()[-80:]}")
if len(set(rc.values())) != 1 or any(rc.values()):
    print("DEFECT: the process dies (signal) under one back-end and answers under the other")
    sys.exit(1)
print("ok")
