"""C04 defect 2: simplex ratio test uses the coarse eps=1e-6 handed down by solve_milp (ignores positive pivot-column
entries <= eps, treats ratios within eps as ties) -> primal-infeasible LP vertices -> infeasible answers / false INFEASIBLE."""
import sys
from solvor.milp import solve_milp
bad = []
def feas(A, b, x): return all(sum(a * v for a, v in zip(row, x)) <= bi for row, bi in zip(A, b))
# case A (instant): pure integer, maximize; answer violates row 1 (… + x3 <= 0) by 4
c = [1223, -2766, 1904, 2719]
A = [[0, -1728, -233, -957], [1587, 187, 0, 1], [-553, 0, -432, -2281], [920, -2404, 521, -74],
     [1, 0, 0, 0], [0, 1, 0, 0], [0, 0, 1, 0], [0, 0, 0, 1]]
b = [279, 0, -432, 3338, 1, 1, 1, 4]
r = solve_milp(c, A, b, [0, 1, 2, 3], minimize=False)
print("A:", r.status, r.objective, r.solution)
if r.solution is not None:
    x = [round(v) for v in r.solution]
    if not feas(A, b, x): bad.append("A: OPTIMAL answer %s violates Ax<=b (true optimum is 1904 at (0,0,1,0))" % (x,))
# case B (~35 s, runs into max_nodes): pure integer, |coefficients| <= 200, minimize
c = [-59, 97, 43, -63]
A = [[-32, 159, -116, 58], [-64, -88, 0, -11], [177, -39, 71, 13], [16, 48, -70, 195], [-132, -117, -1, 0],
     [0, -179, -59, 153], [0, -84, 134, 2], [1, 0, 0, 0], [0, 1, 0, 0], [0, 0, 1, 0], [0, 0, 0, 1]]
b = [19, -75, 262, 142, -133, 243, 136, 1, 1, 1, 4]
w = (1, 0, 1, 1)
assert feas(A, b, w)
r = solve_milp(c, A, b, [0, 1, 2, 3])
print("B:", r.status, r.objective, r.solution)
if r.status.name == "INFEASIBLE": bad.append("B: INFEASIBLE reported but %s is integer-feasible (objective -79)" % (w,))
elif r.status.name == "OPTIMAL" and r.objective > -79 + 0.5: bad.append("B: OPTIMAL %g but -79 attainable" % r.objective)
r2 = solve_milp(c, A, b, [0, 1, 2, 3], warm_start=list(w))
print("B with feasible warm start:", r2.status, r2.objective)
if r2.status != r.status: bad.append("B: warm start changes the verdict (%s vs %s)" % (r.status.name, r2.status.name))
for m in bad: print("DEFECT", m)
sys.exit(1 if bad else 0)
