"""C04 defect 3: when the default max_nodes budget runs out before any incumbent is found, solve_milp reports
Status.INFEASIBLE (milp.py:226-227) although integer-feasible points exist. ~20 s."""
import sys
from solvor.milp import solve_milp
W, U = 60000, 100000
c = [1, 1, W, W]                      # minimize x0 + x1 + W*x2 + W*x3
A = [[4, -4, 3, 3], [-4, 4, -3, -3],  # 4*x0 - 4*x1 + 3*x2 + 3*x3 == 2   (forces x2 = x3 = 1, x1 = x0 + 1)
     [0, 0, 1, 0], [0, 0, 0, 1],      # x2 <= 1, x3 <= 1
     [1, 0, 0, 0], [0, 1, 0, 0]]      # x0 <= U, x1 <= U   (bounded)
b = [2, -2, 1, 1, U, U]
w = (0, 1, 1, 1)
assert all(sum(a * v for a, v in zip(row, w)) <= bi for row, bi in zip(A, b))
bad = []
r = solve_milp(c, A, b, [0, 1, 2, 3])
print("default:", r.status, r.objective, r.solution, "nodes", r.iterations)
if r.status.name == "INFEASIBLE":
    bad.append("INFEASIBLE reported after %d nodes, but %s is integer-feasible (objective %d)" % (r.iterations, w, 2 * W + 1))
r2 = solve_milp(c, A, b, [0, 1, 2, 3], warm_start=list(w))
print("warm start:", r2.status, r2.objective, r2.solution)
if r.status.name == "INFEASIBLE" and r2.status != r.status: bad.append("feasible warm start changes the verdict: %s -> %s" % (r.status.name, r2.status.name))
for m in bad: print("DEFECT", m)
sys.exit(1 if bad else 0)
