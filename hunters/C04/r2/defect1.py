"""C04 defect 1: an LP that runs out of its pivot budget (max_iter) is not recognised by solve_milp.
 - simplex phase 1 out of budget  -> solve_lp says INFEASIBLE  -> solve_milp says INFEASIBLE (feasible problem)
 - simplex phase 2 out of budget  -> status MAX_ITER; solve_milp treats the unfinished vertex as the LP optimum
   (root, milp.py:105-126) or silently drops the node (milp.py:177) -> OPTIMAL for a non-optimal point / INFEASIBLE.
Tiny instances + explicit max_iter here (fast); defect1_default_budget.py shows the same with all-default arguments.
Oracle: brute force over the integer box (all instances carry explicit x_j <= U rows)."""
import itertools, sys
from solvor.milp import solve_milp

def brute(c, A, b, U, minimize):
    best = None
    for x in itertools.product(range(U + 1), repeat=len(c)):
        if all(sum(a * v for a, v in zip(r, x)) <= bi for r, bi in zip(A, b)):
            o = sum(a * v for a, v in zip(c, x))
            if best is None or (o < best if minimize else o > best):
                best = o
    return best

def box(n, U):
    return [[1 if i == j else 0 for i in range(n)] for j in range(n)], [U] * n

INSTANCES = []
# maximize 2x+3y, x+y<=4, x+3y<=6, x,y<=3   (optimum 9 at (3,1))
R, rb = box(2, 3)
INSTANCES.append(("max-2var", [2, 3], [[1, 1], [1, 3]] + R, [4, 6] + rb, 3, False))
# minimize x+y+z, x+y>=2, y+z>=3, x+z>=2, all <=3   (feasible, optimum 4)
R, rb = box(3, 3)
INSTANCES.append(("cover-3var", [1, 1, 1], [[-1, -1, 0], [0, -1, -1], [-1, 0, -1]] + R, [-2, -3, -2] + rb, 3, True))
# knapsack-like with a fractional LP optimum: maximize 5x+4y+3z, 2x+3y+z<=5, 4x+y+2z<=11, 3x+4y+2z<=8
R, rb = box(3, 3)
INSTANCES.append(("chvatal", [5, 4, 3], [[2, 3, 1], [4, 1, 2], [3, 4, 2]] + R, [5, 11, 8] + rb, 3, False))

bad = 0
for name, c, A, b, U, minimize in INSTANCES:
    opt = brute(c, A, b, U, minimize)
    for max_iter in range(0, 13):
        for heur in (True, False):
            r = solve_milp(c, A, b, list(range(len(c))), minimize=minimize, max_iter=max_iter, heuristics=heur)
            st = r.status.name
            wrong = None
            if st == "INFEASIBLE" and opt is not None:
                wrong = f"INFEASIBLE but optimum {opt} exists"
            elif st == "OPTIMAL" and abs(r.objective - opt) > 1e-6:
                wrong = f"OPTIMAL with objective {r.objective}, true optimum {opt}, x={r.solution}"
            if wrong:
                bad += 1
                if heur:
                    print(f"{name}: max_iter={max_iter}: {wrong}")
print("violations:", bad)
sys.exit(1 if bad else 0)
