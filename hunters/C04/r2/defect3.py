"""C04 defect 3: solve_milp returns status OPTIMAL with a point that violates a constraint by 1.0
(8 variables, 9 rows, all data integers with |coef| <= 10, all-default arguments, instant).

  minimize y                      y integer, x1..x7 continuous, all >= 0
  x1 >= 1,  x1 <= 2
  x_i <= 10 x_{i+1}   (i = 1..6)         (so x7 >= 1e-6: tiny values, but tiny INPUT coefficients)
  2 y >= 1

Every integer-feasible point has y >= 1 (2y >= 1, y integer); (y=1, x_i = 10^-(i-1)) is feasible, so the optimum is 1.
"""
import sys
from fractions import Fraction
from solvor.milp import solve_milp

L = 7
n = L + 1          # variables: x1..x7 = 0..6, y = 7
Y = L
A, b = [], []
def row(d, rhs):
    r = [0] * n
    for k, v in d.items():
        r[k] = v
    A.append(r)
    b.append(rhs)
row({0: -1}, -1)                       # x1 >= 1
for i in range(L - 1):
    row({i: 1, i + 1: -10}, 0)         # x_i - 10 x_{i+1} <= 0
row({0: 1}, 2)                         # x1 <= 2
row({Y: -2}, -1)                       # 2y >= 1
c = [0] * n
c[Y] = 1

# exact witness for the true optimum
w = [Fraction(1, 10 ** i) for i in range(L)] + [Fraction(1)]
assert all(sum(a * v for a, v in zip(r, w)) <= bi for r, bi in zip(A, b))

bad = 0
for kw in ({}, {"heuristics": False}, {"warm_start": [float(v) for v in w]}, {"solution_limit": 3}):
    r = solve_milp(c, A, b, [Y], **kw)
    print(kw, "->", r.status.name, "objective", r.objective, "y =", None if r.solution is None else r.solution[Y])
    if r.status.name in ("OPTIMAL", "FEASIBLE"):
        for x in [r.solution] + list(r.solutions or ()):
            viol = max(sum(a * Fraction(v) for a, v in zip(rw, x)) - bi for rw, bi in zip(A, b))
            if viol > Fraction(1, 10 ** 6):
                print("   WRONG: returned point violates A x <= b by", float(viol))
                bad += 1
        if r.status.name == "OPTIMAL" and abs(r.objective - 1) > 1e-6:
            print("   WRONG: OPTIMAL objective", r.objective, "but the true optimum is 1")
            bad += 1
    elif r.status.name in ("INFEASIBLE", "UNBOUNDED"):
        print("   WRONG: problem is feasible and bounded")
        bad += 1
sys.exit(1 if bad else 0)
