"""C04 defect 2: solve_milp reports INFEASIBLE for a feasible covering problem whose data are all in {0,1} / 1..12.
100 integer variables, 100 rows  sum_{j in S_i} x_j >= d_i  (|S_i| = 6, 1 <= d_i <= 12), minimize sum x_j.
x = (12,...,12) is feasible (checked below in exact integer arithmetic), so INFEASIBLE is a wrong verdict.
All arguments are defaults. Runs ~15 s."""
import sys
from solvor.milp import solve_milp
from solvor.simplex import solve_lp

DATA = (
    "8 15 17 32 72 97:11;48 57 60 63 83 97:6;3 12 26 49 55 62:3;0 57 77 89 97 98:9;13 29 34 40 75 92:4;1 2 3 48 69 "
    "83:5;3 27 54 67 87 92:5;28 29 56 63 70 97:12;28 29 44 58 86 97:5;2 12 37 53 71 82:9;15 23 37 80 92 95:6;42 54 "
    "64 85 91 92:3;24 36 38 63 64 75:12;4 31 50 61 75 95:12;22 46 51 53 70 85:12;11 47 86 89 94 99:8;13 20 56 65 84"
    " 99:10;3 47 50 62 66 93:2;5 39 60 75 78 90:2;21 29 50 64 74 82:10;1 25 29 69 70 98:9;44 45 51 58 65 73:10;0 34"
    " 70 77 84 93:7;16 49 65 66 94 99:3;7 26 46 54 61 71:3;25 52 62 64 70 72:5;0 44 45 53 68 69:7;3 42 58 76 78 79:"
    "4;22 23 29 70 74 81:10;4 9 11 32 70 86:12;1 2 10 35 57 96:1;14 23 31 34 44 79:8;8 20 21 32 37 67:11;21 34 37 8"
    "2 84 91:7;14 41 58 60 63 89:12;3 24 39 43 49 53:11;13 26 32 33 65 93:6;2 18 28 50 55 77:7;4 20 57 64 90 92:9;2"
    "8 54 69 80 86 88:3;3 28 57 66 67 83:9;41 50 73 80 84 86:12;7 16 27 38 54 94:1;6 9 20 38 39 95:9;1 16 32 53 71 "
    "72:2;4 21 27 58 72 75:5;4 48 65 79 90 99:11;12 25 26 44 73 86:2;13 24 55 63 75 85:5;2 37 41 49 63 64:12;2 20 2"
    "5 36 51 78:2;17 27 41 43 54 72:3;12 34 44 48 70 86:10;8 30 62 68 87 98:11;5 10 17 21 68 92:11;27 34 42 64 76 9"
    "7:12;14 30 32 37 43 47:2;17 62 74 77 91 99:8;5 13 41 52 70 98:4;9 14 16 18 43 48:7;9 48 70 73 75 78:7;10 28 34"
    " 37 46 72:7;13 14 35 58 68 72:3;1 5 11 37 78 85:6;5 14 24 30 52 75:8;14 20 21 53 57 87:3;13 20 30 48 55 95:10;"
    "32 37 61 69 70 91:8;3 5 12 26 40 83:4;1 37 40 57 76 92:2;8 40 50 51 58 76:7;14 27 32 69 79 99:10;23 33 45 60 8"
    "4 88:9;25 26 31 39 46 69:7;10 11 35 57 83 96:2;29 39 43 49 73 82:11;5 23 38 40 41 74:5;12 31 42 69 74 78:5;2 1"
    "1 28 31 51 76:4;2 9 34 70 81 93:7;1 37 45 60 63 96:12;9 12 19 41 64 99:9;18 19 22 65 85 99:1;13 39 40 65 77 90"
    ":4;16 18 26 37 69 92:9;4 40 70 79 86 99:8;22 26 38 55 88 95:10;6 20 31 68 85 91:1;8 32 55 57 87 99:1;32 56 58 "
    "68 69 70:11;1 21 33 43 50 62:10;2 3 7 53 73 82:4;16 17 45 74 75 88:5;17 33 35 50 51 72:4;0 11 22 29 62 78:3;22"
    " 40 56 64 67 83:5;28 30 40 81 87 93:3;28 52 61 63 87 91:9;35 43 71 78 83 93:4;6 9 28 65 82 97:5"
)
n = 100
A, b = [], []
for item in DATA.split(";"):
    idx, d = item.split(":")
    row = [0] * n
    for j in idx.split():
        row[int(j)] = -1
    A.append(row)
    b.append(-int(d))
c = [1] * n
witness = [12] * n
assert len(A) == 100 and all(sum(a * v for a, v in zip(r, witness)) <= bi for r, bi in zip(A, b))

bad = 0
r = solve_milp(c, A, b, list(range(n)), max_nodes=1)  # max_nodes only so that a repaired library returns quickly; same verdict with the default
print("solve_milp:", r.status.name, "LP pivots:", r.evaluations)
if r.status.name == "INFEASIBLE":
    print("  WRONG: x = (12,)*100 satisfies every row, objective 1200")
    bad += 1
elif r.status.name in ("OPTIMAL", "FEASIBLE"):
    x = r.solution
    ok = all(v >= -1e-6 and abs(v - round(v)) <= 1e-6 for v in x) and all(
        sum(a * v for a, v in zip(row, x)) <= bi + 1e-6 for row, bi in zip(A, b))
    if not ok:
        print("  WRONG: returned point is not integer-feasible")
        bad += 1
# the relaxation itself, with the tolerance solve_milp forwards (1e-6) and with solve_lp's own default (1e-10)
for eps in (1e-6, None):
    lp = solve_lp(c, A, b, eps=eps) if eps else solve_lp(c, A, b)
    print("solve_lp eps=%s:" % (eps or "default"), lp.status.name, "pivots", lp.iterations)
    if lp.status.name == "INFEASIBLE":
        bad += 1
sys.exit(1 if bad else 0)
