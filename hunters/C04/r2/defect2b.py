"""C04 defect 2, second symptom: UNBOUNDED for a problem whose relaxation is bounded (all-default arguments, ~1 min).
160 integer variables, 160 covering rows  sum_{j in S_i} x_j >= d_i  (0/1 matrix, 1 <= d_i <= 12), minimize sum x_j.
x >= 0 gives objective >= 0, x = (12,...,12) is feasible: the relaxation has a finite optimum, yet status is UNBOUNDED.
Cause: residue left by the skipped eliminations in simplex._pivot (|f| <= eps) produces a noise-level negative
reduced cost on a column without positive entries -> phase 2 declares an unbounded ray."""
import random, sys, zlib
from solvor.milp import solve_milp

n = 160
rng = random.Random(1)
A = [[-(1 if rng.random() < 0.05 else 0) for _ in range(n)] for _ in range(n)]
for r in A:
    if not any(r):
        r[rng.randrange(n)] = -1
b = [-rng.randint(1, 12) for _ in range(n)]
crc = zlib.crc32(repr((A, b)).encode())
print("instance crc32:", crc, "(expected 3839151935)")
witness = [12] * n
assert all(any(r) for r in A) and all(sum(a * v for a, v in zip(r, witness)) <= bi for r, bi in zip(A, b))

r = solve_milp([1] * n, A, b, list(range(n)), max_nodes=1)  # max_nodes only so that a repaired library returns quickly; the verdict below is identical with the default (verified)
print("status:", r.status.name, "nodes:", r.iterations, "LP pivots:", r.evaluations)
if r.status.name == "INFEASIBLE":
    print("WRONG: x = (12,)*160 is integer-feasible")
    sys.exit(1)
if r.status.name == "UNBOUNDED":
    print("WRONG: objective sum x_j >= 0 on x >= 0 cannot be unbounded")
    sys.exit(1)
sys.exit(0)
