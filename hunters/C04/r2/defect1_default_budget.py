"""C04 defect 1 with the DEFAULT max_iter (slow: ~2 minutes, 10 000 pivots of a 170x340 tableau).
170 integer variables, 170 covering rows  sum_{j in S_i} x_j >= d_i  (0/1 matrix, 1 <= d_i <= 12), minimize sum x_j.
Phase 1 of the root LP needs more than max_iter=10 000 (the default) Bland pivots; simplex.py turns the exhausted
budget into INFEASIBLE and solve_milp passes that on.  x = (12,...,12) is feasible, so INFEASIBLE is wrong."""
import random, sys, zlib
from solvor.milp import solve_milp

n = 170
rng = random.Random(1)
A = [[-(1 if rng.random() < 0.05 else 0) for _ in range(n)] for _ in range(n)]
for r in A:
    if not any(r):
        r[rng.randrange(n)] = -1
b = [-rng.randint(1, 12) for _ in range(n)]
crc = zlib.crc32(repr((A, b)).encode())
print("instance crc32:", crc, "(expected 3366982639)")
witness = [12] * n
assert all(any(r) for r in A) and all(sum(a * v for a, v in zip(r, witness)) <= bi for r, bi in zip(A, b))

r = solve_milp([1] * n, A, b, list(range(n)), max_nodes=1)  # max_nodes only so that a repaired library returns quickly; the verdict below is identical with the default (verified)
print("status:", r.status.name, "nodes:", r.iterations, "LP pivots:", r.evaluations)
if r.status.name == "INFEASIBLE":
    print("WRONG: x = (12,)*170 is integer-feasible (objective 2040); the LP merely ran out of its pivot budget")
    sys.exit(1)
if r.status.name == "UNBOUNDED":
    print("WRONG: objective sum x_j >= 0 on x >= 0 cannot be unbounded")
    sys.exit(1)
sys.exit(0)
