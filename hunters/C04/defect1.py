"""C04 defect 1: simplex._pivot skips eliminations |f|<=eps; solve_milp passes eps=1e-6 -> wrong LP vertex/objective."""
import sys
from solvor.milp import solve_milp
bad = []
# case A: mixed (x0 continuous), minimize, root LP accepted as answer
c = [739, 405, -774, 163]
A = [[-789, -19, -430, -839], [-75, -782, -4, -39], [-616, -652, 90, 833], [756, -867, 0, 0],
     [1, 0, 0, 0], [0, 1, 0, 0], [0, 0, 1, 0], [0, 0, 0, 1]]
b = [-1262, -865, -1087, -110, 1, 1, 2, 1]
r = solve_milp(c, A, b, [1, 3, 2])
print("A:", r.status, r.objective, r.solution)
if r.solution is not None:
    x = r.solution
    viol = max(sum(a * v for a, v in zip(row, x)) - bi for row, bi in zip(A, b))
    cx = sum(ci * v for ci, v in zip(c, x))
    if viol > 1e-4: bad.append("A: returned point violates Ax<=b by %.4f" % viol)
    if abs(cx - r.objective) > 1e-4: bad.append("A: reported objective %.4f but c.x = %.4f" % (r.objective, cx))
    # integer part can only be (x1,x2,x3) in {0,1}x{0..2}x{0,1}; true optimum is -404.19.. (x=(0.99955,1,2,0.00087) is
    # not integral in x3; best integral is -404 at (1,1,2,0)); anything below -404.5 is impossible
    if r.objective < -404.5: bad.append("A: OPTIMAL objective %.4f is below the true optimum -404" % r.objective)
# case B: pure integer, minimize
c = [-2696, -2522, 2524, -2152, -2151]
A = [[-743, -2029, 0, -729, -2052], [1820, -2850, 1413, -2343, 933], [-2429, 2553, 1513, -1789, 532],
     [-324, 0, 2294, -1, 697], [1, 0, 0, 0, 0], [0, 1, 0, 0, 0], [0, 0, 1, 0, 0], [0, 0, 0, 1, 0], [0, 0, 0, 0, 1]]
b = [-5222, -5289, 2289, 372, 1, 4, 1, 1, 1]
w = (1, 2, 0, 1, 1)
assert all(sum(a * v for a, v in zip(row, w)) <= bi for row, bi in zip(A, b))
wobj = sum(ci * v for ci, v in zip(c, w))
r = solve_milp(c, A, b, [0, 1, 2, 3, 4])
print("B:", r.status, r.objective, r.solution, "witness", w, wobj)
if r.status.name == "OPTIMAL" and r.objective > wobj + 0.5:
    bad.append("B: status OPTIMAL with objective %g but integer point %s is feasible with %g" % (r.objective, w, wobj))
for m in bad: print("DEFECT", m)
sys.exit(1 if bad else 0)
