"""A float NaN node label (hashable, found by identity in dicts/sets) breaks bridges, kcore and louvain:
the code decides 'is w the parent / is this a self loop' with `!=`, and NaN != NaN."""
import math, sys
from solvor.articulation import bridges
from solvor.kcore import kcore_decomposition
from solvor.community import louvain

nan = math.nan  # one object, used consistently as a node label (e.g. a missing value coming from a data file)
bad = False

def relabel(g, a, b):
    f = lambda v: b if v is a else v
    return {f(v): [f(w) for w in ws] for v, ws in g.items()}

# 1. bridges: path 0 - nan - 1 is a tree, so both edges are bridges (removing either splits the component)
g = {0: [nan], nan: [0, 1], 1: [nan]}
got = {frozenset(e) for e in bridges(list(g), lambda v: g[v]).solution}
h = relabel(g, nan, 0.5)
ref = {frozenset(e) for e in bridges(list(h), lambda v: h[v]).solution}
print("bridges of 0-nan-1:", got, "| same graph with label 0.5:", ref)
if len(got) != 2:
    bad = True

# 2. kcore: an isolated node carrying a self loop survives no deletion round with k >= 1 -> core number 0
g = {nan: [nan]}
c = kcore_decomposition(list(g), lambda v: g[v]).solution
c_ref = kcore_decomposition(["a"], lambda v: ["a"]).solution
print("core number of isolated node with self loop:", c, "| with label 'a':", c_ref)
if list(c.values()) != list(c_ref.values()):
    bad = True

# 3. louvain: triangle whose first node also lists itself; reported modularity must be that of the partition
g = {nan: [nan, 1], 1: [2], 2: [nan]}
r = louvain(list(g), lambda v: g[v])
h = relabel(g, nan, "a")
r_ref = louvain(list(h), lambda v: h[v])
# definitional modularity of the returned partition on the simple triangle (self loops are ignored by the library)
E = [(0, 1), (1, 2), (0, 2)]; idx = {id(nan): 0, id(1): 1, id(2): 2}
q = 0.0
for comm in r.solution:
    ids = {idx[id(v)] for v in comm}
    inside = sum(1 for u, v in E if u in ids and v in ids)
    q += inside / 3 - (2 * len(ids) / 6) ** 2
print("louvain:", r.solution, "reported", r.objective, "definitional", q, "| with label 'a':", r_ref.solution, r_ref.objective)
if abs(r.objective - q) > 1e-9:
    bad = True

if bad:
    print("DEFECT: results depend on the node label being NaN (missed bridge / wrong core number / wrong modularity)")
    sys.exit(1)
print("ok")
