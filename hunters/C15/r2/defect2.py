"""bridges() raises TypeError when a bridge joins two labels that are not mutually orderable."""
import sys
from solvor.articulation import articulation_points, bridges

cases = {
    "int/str labels": {1: ["db"], "db": [1, "api"], "api": ["db"]},
    "None label": {None: [1], 1: [None]},
    "complex labels": {1j: [2j], 2j: [1j]},
    "mixed tuples": {(1, "a"): [(1, 2)], (1, 2): [(1, "a")]},
}
bad = False
for name, g in cases.items():
    expect = {frozenset((u, v)) for u in g for v in g[u]}  # every graph above is a tree: all edges are bridges
    ap = articulation_points(list(g), lambda v: g[v]).solution  # works for the same labels
    try:
        got = {frozenset(e) for e in bridges(list(g), lambda v: g[v]).solution}
        ok = got == expect
        print(name, "->", "ok" if ok else f"WRONG {got}")
    except TypeError as e:
        ok = False
        print(name, "-> articulation_points fine", ap, "but bridges raised TypeError:", e)
    bad |= not ok
if bad:
    print("DEFECT: bridges does not return the cut edges for hashable, non-orderable node labels")
    sys.exit(1)
print("ok")
