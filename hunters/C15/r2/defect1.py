"""pagerank reports a converged (OPTIMAL) result that violates the PageRank equation by far more than tol."""
import sys
from solvor.pagerank import pagerank
from solvor.types import Status

def funnel(m, L):
    # m disjoint chains (i,0)->(i,1)->...->(i,L-1)->'H', and 'H' -> every chain head. No dangling nodes,
    # no self loops, no duplicate edges: a plain strongly connected directed graph.
    g = {"H": [(i, 0) for i in range(m)]}
    for i in range(m):
        for j in range(L):
            g[(i, j)] = [(i, j + 1)] if j + 1 < L else ["H"]
    return g

def residual(g, s, d):
    """max_v | s[v] - ((1-d)/n + d*sum_{u->v} s[u]/out(u) + d*dangling/n) |  (definitional)"""
    n = len(g)
    rhs = {v: (1 - d) / n for v in g}
    dang = sum(s[v] for v in g if not g[v])
    for u in g:
        for w in g[u]:
            rhs[w] += d * s[u] / len(g[u])
    return max(abs(rhs[v] + d * dang / n - s[v]) for v in g)

bad = False
for name, m, L, kw in [("small, tol=0.02", 30, 2, dict(damping=0.85, tol=0.02)),
                       ("all defaults (damping .85, tol 1e-6, max_iter 100)", 2000, 20, {})]:
    g = funnel(m, L)
    d, tol = kw.get("damping", 0.85), kw.get("tol", 1e-6)
    r = pagerank(list(g), lambda v: g[v], **kw)
    res = residual(g, r.solution, d)
    print(f"{name}: n={len(g)} status={r.status.name} iterations={r.iterations} "
          f"reported change={r.objective:.3g} tol={tol:g} equation residual={res:.3g} = {res / tol:.1f} x tol")
    if r.status == Status.OPTIMAL and res > 10 * tol:
        bad = True
if bad:
    print("DEFECT: result flagged as converged does not satisfy the damped PageRank equation to within tol")
    sys.exit(1)
print("ok")
