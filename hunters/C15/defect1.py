"""articulation_points / bridges crash (RecursionError) on a 1000-node path."""
import sys
from solvor.articulation import articulation_points, bridges
n = 1000
nb = lambda v: [w for w in (v - 1, v + 1) if 0 <= w < n]
bad = 0
for f, want in ((articulation_points, n - 2), (bridges, n - 1)):
    try:
        got = len(f(range(n), nb).solution)
        if got != want: print(f.__name__, "wrong count", got, want); bad = 1
    except RecursionError:
        print(f.__name__, "raised RecursionError on a path of", n, "nodes"); bad = 1
sys.exit(bad)
