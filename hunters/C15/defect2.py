"""louvain reports a modularity that is not the modularity of the returned partition
when nodes are hashable but only partially ordered (frozensets)."""
import sys
from solvor.community import louvain
a, b, c, d = (frozenset({i}) for i in (1, 2, 3, 4))
g = {a: [b, c], b: [a, c], c: [a, b, d], d: [c]}
r = louvain([a, b, c, d], lambda v: g[v])
E = {frozenset((u, w)) for u in g for w in g[u]}
m = len(E); deg = {v: sum(1 for e in E if v in e) for v in g}
q = sum(sum(1 for e in E if e <= com) / m - (sum(deg[v] for v in com) / (2 * m)) ** 2 for com in r.solution)
print("partition", r.solution, "reported", r.objective, "true", q)
sys.exit(1 if abs(q - r.objective) > 1e-9 else 0)
