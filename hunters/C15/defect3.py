"""articulation_points is wrong when None is a node (None doubles as the 'root' marker)."""
import sys
from solvor.articulation import articulation_points
bad = 0
for g, want in (({None: [1], 1: [None, 2], 2: [1]}, {1}), ({0: [None], None: [0, 2], 2: [None]}, {None})):
    got = articulation_points(list(g), lambda v: g[v]).solution
    print(g, "got", got, "want", want)
    bad |= got != want
sys.exit(1 if bad else 0)
