"""pagerank reports convergence but the returned scores miss the PageRank equation by ~2x tol."""
import sys
from solvor.pagerank import pagerank
g = {0: [6], 1: [6], 2: [6], 3: [6], 4: [6], 5: [0, 1, 3, 4], 6: [5, 8, 9], 7: [2, 10], 8: [2, 8, 9], 9: [6], 10: [6]}
d, tol, n = 0.99, 2.7969616514767284e-07, len(g)
r = pagerank(list(g), lambda v: g[v], damping=d, tol=tol, max_iter=3000)
s = r.solution
t = {v: (1 - d) / n + d * sum(s[u] for u in g if not g[u]) / n for v in g}
for u in g:
    for w in g[u]: t[w] += d * s[u] / len(g[u])
res = max(abs(t[v] - s[v]) for v in g)
print("status", r.status.name, "iterations", r.iterations, "max residual", res, "tol", tol, "ratio", res / tol)
sys.exit(1 if r.status.name != "MAX_ITER" and res > tol else 0)
