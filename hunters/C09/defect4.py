"""min_cost_flow with a negative demand returns OPTIMAL with an empty flow (net flow 0 != demand)."""
import sys
from solvor.flow import min_cost_flow
from solvor.types import Status

g = {0: [(1, 5, 2)]}
try:
    r = min_cost_flow(g, 0, 1, -3)
except ValueError as e:
    print("rejected:", e); sys.exit(0)
print(r.status.name, r.objective, r.solution)
net = sum(f for (u, v), f in (r.solution or {}).items() if u == 0) - sum(f for (u, v), f in (r.solution or {}).items() if v == 0)
if r.status != Status.INFEASIBLE and net != -3:
    print(f"DEFECT: status {r.status.name} but net flow out of source is {net}, demand was -3 (no flow can meet it)")
    sys.exit(1)
print("ok")
