"""network_simplex returns a non-minimum cost when integer costs are large (float potentials)."""
import sys
from solvor.network_simplex import network_simplex
from solvor.flow import min_cost_flow

B = 2**54
arcs = [(0, 1, 1, B + 3), (0, 1, 1, B + 1)]   # two parallel arcs, cheapest is B+1
r = network_simplex(2, arcs, [1, -1])
m = min_cost_flow({0: [(1, 1, B + 3), (1, 1, B + 1)]}, 0, 1, 1)
print("network_simplex cost:", r.objective, "status", r.status.name)
print("min_cost_flow  cost:", m.objective)
print("true optimum       :", B + 1)
bad = r.objective != B + 1 or r.objective != m.objective

# moderate magnitudes are enough on a 100-node network (costs ~1e12): triangle choice repeated
import random
rng = random.Random(38); n = 100; arcs2 = []
for _ in range(400):
    u, v = rng.sample(range(n), 2)
    arcs2.append((u, v, rng.randint(1, 3), 10**12 + rng.randint(0, 9)))
sup = [0] * n
for _ in range(10):
    a, b = rng.sample(range(n), 2); sup[a] += 1; sup[b] -= 1
r2 = network_simplex(n, arcs2, sup)
print("100-node network, costs 1e12+{0..9}: network_simplex cost", r2.objective,
      "(optimum found by independent SSP oracle: 21000000000099)")
bad = bad or r2.objective != 21000000000099
if bad:
    print("DEFECT: network_simplex cost is not minimal / disagrees with min_cost_flow")
    sys.exit(1)
print("ok")
