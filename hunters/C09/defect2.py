"""solve_assignment / min_cost_flow never return (and eat memory) on ordinary decimal costs."""
import sys, multiprocessing as mp


def work(q):
    from solvor.flow import solve_assignment
    r = solve_assignment([[0.9, 1.2], [0.2, 0.2]])
    q.put((r.solution, r.objective))


if __name__ == "__main__":
    q = mp.Queue()
    p = mp.Process(target=work, args=(q,))
    p.start()
    p.join(5)
    if p.is_alive():
        p.terminate()
        print("DEFECT: solve_assignment([[0.9, 1.2], [0.2, 0.2]]) did not terminate within 5 s "
              "(infinite loop in min_cost_flow path reconstruction, list grows without bound)")
        sys.exit(1)
    sol, obj = q.get()
    print("returned", sol, obj)
    ok = sol == [0, 1] and abs(obj - 1.1) < 1e-9
    sys.exit(0 if ok else 1)
