"""network_simplex reports INFEASIBLE for a feasible problem when the iteration limit is hit.
Zero-capacity arcs make the iteration count quadratic, so even the default limit is reachable
(run with --full: 1001 nodes, 2000 arcs, default max_iter -> INFEASIBLE; takes several minutes)."""
import sys
from solvor.network_simplex import network_simplex
from solvor.types import Status

bad = False
# (a) feasible 3-node chain, optimum 6
r = network_simplex(3, [(0, 1, 5, 1), (1, 2, 5, 1)], [3, 0, -3], max_iter=1)
print("(a) max_iter=1 :", r.status.name, r.objective, "(feasible, optimum 6)")
bad |= r.status == Status.INFEASIBLE

# (b) chain of P unit arcs + Z zero-capacity shortcut arcs: iterations = (P+1)*(Z+1)
P = Z = 1000 if "--full" in sys.argv else 60
n = P + 1
arcs = [(i, i + 1, 1, 1) for i in range(P)] + [(0, P, 0, 0)] * Z
sup = [0] * n; sup[0] = 1; sup[P] = -1
if "--full" in sys.argv:
    r = network_simplex(n, arcs, sup)
else:
    r = network_simplex(n, arcs, sup, max_iter=(P + 1) * (Z + 1) // 2)
print(f"(b) P=Z={P}:", r.status.name, r.objective, "iterations", r.iterations, f"(feasible, optimum {P})")
bad |= r.status == Status.INFEASIBLE
r_ok = network_simplex(n, arcs, sup) if P < 100 else None
if r_ok: print("    unlimited run needs", r_ok.iterations, "iterations for", len(arcs), "arcs")

if bad:
    print("DEFECT"); sys.exit(1)
print("ok")
