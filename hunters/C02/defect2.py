"""solve_sat raises IndexError when an assumption mentions a variable that occurs in no clause."""
import sys
from solvor.sat import solve_sat
from solvor.types import Status
bad = 0
for cls, asm, want in (([[1, 2]], [3], Status.OPTIMAL), ([[1, 2], [-1, 2]], [-5], Status.OPTIMAL), ([[1]], [2, -2], Status.INFEASIBLE)):
    try:
        r = solve_sat(cls, assumptions=asm)
        print(cls, asm, '->', r.status, r.solution)
        if r.status != want: bad = 1
        elif want == Status.OPTIMAL and any(r.solution.get(abs(a)) != (a > 0) for a in asm):
            print('  WRONG: model does not honour the assumption'); bad = 1
    except Exception as e:
        print(cls, asm, '-> raised', type(e).__name__, e, '(expected', want, ')'); bad = 1
sys.exit(bad)
