"""With an empty clause list the assumptions are ignored: contradictory assumptions get OPTIMAL."""
import sys
from solvor.sat import solve_sat
from solvor.types import Status
bad = 0
r = solve_sat([], assumptions=[1, -1])
print('[] assuming [1,-1] ->', r.status, r.solution)
if r.status != Status.INFEASIBLE: print('  WRONG: x1 and not x1 has no model, expected INFEASIBLE'); bad = 1
r = solve_sat([], assumptions=[-1])
print('[] assuming [-1] ->', r.status, r.solution)
if r.status != Status.OPTIMAL or r.solution.get(1) is not False: print('  WRONG: returned model does not make the assumed literal true'); bad = 1
ref = solve_sat([[1, -1]], assumptions=[1, -1]); print('reference [[1,-1]] assuming [1,-1] ->', ref.status)
sys.exit(bad)
