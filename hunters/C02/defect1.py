"""solve_sat reports a model (OPTIMAL, {}) for a formula that consists only of empty clauses."""
import sys
from solvor.sat import solve_sat
from solvor.types import Status
bad = 0
for cls in ([[]], [[], []], ((),)):
    r = solve_sat(cls)
    print(cls, '->', r.status, r.solution)
    if r.status != Status.INFEASIBLE:
        print('  WRONG: the empty clause is unsatisfiable, expected INFEASIBLE'); bad = 1
ref = solve_sat([[], [1]])
print([[], [1]], '->', ref.status, '(same formula plus a satisfiable clause is answered correctly)')
sys.exit(bad)
