"""defect1: solve_sat live-locks when a restart follows every conflict (luby_factor=0).

A satisfiable formula with 8 variables (2**8 = 256 total assignments) is never solved: the solver
learns the same two clauses over and over and burns ANY conflict/restart budget, answering MAX_ITER.
A complete CDCL search needs at most 2**n conflicts, so a budget of 1500 is not "exhausted" by the
problem - it is consumed by an endless cycle (decisions grow exactly 2 per conflict, result never changes).
Exits 1 when the defect is present, 0 on a correct library.
"""
import itertools
import sys

from solvor.sat import solve_sat
from solvor.types import Status

clauses = [[-8, -1, -4], [-8, 4, -3], [-7, 8], [-1, 8, 6, 7], [1, -2], [3], [-6]]
n = 8

# exact oracle: brute force
models = 0
for bits in itertools.product([False, True], repeat=n):
    if all(any(bits[abs(l) - 1] == (l > 0) for l in c) for c in clauses):
        models += 1
print(f"brute force: {models} models out of {2 ** n} assignments (formula is satisfiable)")

bad = False
for budget in (300, 1500):
    r = solve_sat(clauses, luby_factor=0, max_conflicts=budget, max_restarts=budget)
    print(f"luby_factor=0 budget={budget}: status={r.status.name} solution={r.solution} decisions={r.iterations}")
    if r.status != Status.OPTIMAL:
        bad = True

# same thing with the two facts passed as assumptions
r = solve_sat(clauses[:5], assumptions=[3, -6], luby_factor=0, max_conflicts=1500, max_restarts=1500)
print(f"assumptions variant: status={r.status.name}")
bad = bad or r.status != Status.OPTIMAL

# control: any other restart scale solves it at once
r = solve_sat(clauses, luby_factor=1, max_conflicts=1500, max_restarts=1500)
print(f"control luby_factor=1: status={r.status.name} decisions={r.iterations}")

if bad:
    print("DEFECT: satisfiable 8-variable formula not solved within a budget of 1500 conflicts (> 2**8); "
          "the search cycles forever (with unlimited budgets the call never returns)")
    sys.exit(1)
print("ok")
