"""FenwickTree(list) builds its internal nodes by adding NON-contiguous groups of
elements (a[3] + (a[0]+a[1]) before a[2]).  For inputs where every contiguous range
sum is an exactly representable double - so a plain array answers every prefix /
range_sum exactly in any order - the tree built from the list answers wrongly,
although the same tree built by FenwickTree(n) + update() answers exactly."""
import sys
from fractions import Fraction
from solvor.utils import FenwickTree

bad = 0
for a in ([2.0**52, 0.0, -2.0**52, 0.5], [2.0**53, 0.0, -2.0**53, 1.0], [1.0, 0.0, -1.0, 2.0**-53]):
    n = len(a)
    exact = [Fraction(v) for v in a]
    # precondition: every contiguous range sum is exactly a double (no rounding excuse)
    for l in range(n):
        for r in range(l, n):
            s = sum(exact[l:r + 1])
            assert Fraction(float(s)) == s
    ft = FenwickTree(a)                      # documented list constructor
    ft2 = FenwickTree(n)                     # same content via point updates
    for i, v in enumerate(a):
        ft2.update(i, v)
    plain = list(a)
    for i in range(n):
        want = 0.0
        for v in plain[:i + 1]:
            want += v                        # naive plain-array prefix, exact here
        assert Fraction(want) == sum(exact[:i + 1])
        got, got2 = ft.prefix(i), ft2.prefix(i)
        if got != want:
            bad += 1
            print(f"a={a}: prefix({i}) = {got!r}, plain array gives {want!r} "
                  f"(FenwickTree(n)+updates gives {got2!r})")
    for l in range(n):
        for r in range(l, n):
            want = float(sum(exact[l:r + 1]))
            got = ft.range_sum(l, r)
            if got != want:
                bad += 1
                print(f"a={a}: range_sum({l},{r}) = {got!r}, plain array gives {want!r}")
if bad:
    print(f"DEFECT: {bad} wrong answers from a freshly constructed FenwickTree")
    sys.exit(1)
print("ok")
