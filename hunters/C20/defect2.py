"""range_sum over elements that were never touched is wrong (absorbed by a large neighbour); inf gives nan."""
import sys
from solvor.utils import FenwickTree
bad = 0
for arr, l, r in [([1e16, 1.0], 1, 1), ([1e30, 96.0, -4.0], 2, 2), ([float("inf"), 1.0, 2.0], 1, 2)]:
    got, want = FenwickTree(arr).range_sum(l, r), sum(arr[l:r + 1])
    print(arr, f"range_sum({l},{r}) want", want, "got", got)
    bad += got != want
sys.exit(1 if bad else 0)
