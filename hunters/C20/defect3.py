"""Integer data: answers are coerced to float -> wrong above 2**53, OverflowError above ~1.8e308."""
import sys
from solvor.utils import FenwickTree
bad = 0
v = 2**53 + 1
got = FenwickTree([v]).prefix(0); print("prefix of [2**53+1] want", v, "got", got); bad += got != v
ft = FenwickTree(2); ft.update(1, v); got = ft.range_sum(1, 1); print("size-ctor + update want", v, "got", got); bad += got != v
try:
    got = FenwickTree([10**400, 1]).prefix(1); bad += got != 10**400 + 1
except OverflowError as e:
    print("prefix of [10**400, 1] raised OverflowError:", e); bad += 1
sys.exit(1 if bad else 0)
