"""Updates to index 0 permanently corrupt the value seen at index 1."""
import sys
from solvor.utils import FenwickTree
arr = [0.0, 1.0]; ft = FenwickTree(list(arr))
for i, d in [(0, 1e30), (0, -1e30)]:
    ft.update(i, d); arr[i] += d          # plain array model: arr == [0.0, 1.0]
want_p, want_r = arr[0] + arr[1], arr[1]
got_p, got_r = ft.prefix(1), ft.range_sum(1, 1)
print("model array", arr, "prefix(1) want", want_p, "got", got_p, "| range_sum(1,1) want", want_r, "got", got_r)
sys.exit(0 if (got_p == want_p and got_r == want_r) else 1)
